#!/usr/bin/env python3
"""Prints the markdown table of DESIGN.md 10.4 from seeded/*/meta.json."""
import json, glob, os, re
rows = []
for m in sorted(glob.glob(os.path.join(os.path.dirname(__file__), "..", "seeded", "*", "meta.json"))):
    d = json.load(open(m))
    sid = os.path.basename(os.path.dirname(m))
    rows.append((sid, d))
print("| id | change | caught by | strengthening |")
print("|---|---|---|---|")
for sid, d in rows:
    esc = lambda s: str(s).replace("|", "\\|").replace("\n", " ")
    print("| %s | %s | %s | %s |" % (sid, esc(d["change"]), esc(d["caught_by"]), esc(d.get("strengthening") or "caught by the first version")))
