#!/bin/bash
# usage: tools/try_seed.sh <patch.diff> <tier> <Cxx> [Cyy ...]
# Applies a seeded change to /repo, runs the given checks, and always undoes it.
set -u
patch=$(realpath "$1"); tier=$2; shift 2
cd /verif
export VERIF_EVIDENCE_DIR=/verif/work/seed-evidence
if ! git -C /repo diff --quiet; then echo "refusing: /repo has uncommitted changes"; exit 9; fi
git -C /repo apply "$patch" || { echo "patch does not apply"; exit 8; }
trap 'git -C /repo checkout -- . ; git -C /repo clean -fdq -- src macros 2>/dev/null' EXIT
for p in "$@"; do
  out=$(./check $p $tier 2>&1)
  rc=$?
  echo "== $p rc=$rc"
  echo "$out" | grep -E "^(VIOLATION|  signature|INCONCLUSIVE|KNOWN-FINDING)" | cut -c1-220 | sort | uniq -c | head -12
done
