#!/usr/bin/env python3
"""Parses outputs of tools/try_seed.sh runs ('#### <id> ...' blocks) into {id: {prop: (rc, [signatures])}}."""
import re, sys, json
def parse(path):
    res = {}
    cur = None; prop = None
    for line in open(path, errors="replace"):
        m = re.match(r"#### (\S+)", line)
        if m:
            cur = m.group(1); res.setdefault(cur, {}); continue
        m = re.match(r"== (C\d+) rc=(\d+)", line)
        if m and cur:
            prop = m.group(1); res[cur][prop] = [int(m.group(2)), []]; continue
        m = re.search(r"signature=(\S+) build=(\S+)", line)
        if m and cur and prop:
            sig = m.group(1).split("/", 1)[1]
            b = m.group(2)
            res[cur][prop][1].append(sig + (" (%s)" % b if b != "v0" else ""))
    return res
if __name__ == "__main__":
    print(json.dumps(parse(sys.argv[1]), indent=1))
