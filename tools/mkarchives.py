#!/usr/bin/env python3
"""Writes tar / zip archives of a directory tree in many independent forms.

usage: mkarchives.py <root dir> <out dir> <seed>
Output: <out>/<variant>.tar|.zip and <out>/variants.json describing each form.
"""
import io, json, os, random, sys, tarfile, zipfile

root, out, seed = sys.argv[1], sys.argv[2], int(sys.argv[3])
rnd = random.Random(seed)
os.makedirs(out, exist_ok=True)

files, dirs = [], []
for dp, dns, fns in os.walk(root):
    rel = os.path.relpath(dp, root)
    rel = "" if rel == "." else rel
    for d in sorted(dns):
        dirs.append(os.path.join(rel, d) if rel else d)
    for f in sorted(fns):
        files.append(os.path.join(rel, f) if rel else f)

variants = []

def members(order, with_dirs):
    ds = list(dirs) if with_dirs else []
    fs = list(files)
    if order == "natural":
        allm = sorted([(d, True) for d in ds] + [(f, False) for f in fs], key=lambda x: x[0])
    elif order == "dirs-last":
        allm = [(f, False) for f in fs] + [(d, True) for d in ds]
    elif order == "dirs-first":
        allm = [(d, True) for d in ds] + [(f, False) for f in fs]
    else:
        allm = [(d, True) for d in ds] + [(f, False) for f in fs]
        rnd.shuffle(allm)
    return allm

def mk_tar(name, fmt, order, with_dirs, prefix):
    path = os.path.join(out, name + ".tar")
    with tarfile.open(path, "w", format=fmt) as t:
        for m, is_dir in members(order, with_dirs):
            arc = prefix + m
            if is_dir:
                ti = tarfile.TarInfo(arc + "/")
                ti.type = tarfile.DIRTYPE
                ti.mode = 0o755
                t.addfile(ti)
            else:
                data = open(os.path.join(root, m), "rb").read()
                ti = tarfile.TarInfo(arc)
                ti.size = len(data)
                ti.mode = 0o644
                t.addfile(ti, io.BytesIO(data))
    variants.append({"file": name + ".tar", "kind": "tar", "format": "gnu" if fmt == tarfile.GNU_FORMAT else "pax",
                     "order": order, "dir_members": with_dirs, "prefix": prefix, "writer": "python"})

def mk_zip(name, comp, order, with_dirs, prefix):
    path = os.path.join(out, name + ".zip")
    with zipfile.ZipFile(path, "w", compression=comp) as z:
        for m, is_dir in members(order, with_dirs):
            arc = prefix + m
            if is_dir:
                z.writestr(zipfile.ZipInfo(arc + "/"), b"")
            else:
                zi = zipfile.ZipInfo(arc)
                zi.compress_type = comp
                z.writestr(zi, open(os.path.join(root, m), "rb").read())
    variants.append({"file": name + ".zip", "kind": "zip", "compression": "deflated" if comp == zipfile.ZIP_DEFLATED else "stored",
                     "order": order, "dir_members": with_dirs, "prefix": prefix, "writer": "python"})

i = 0
for fmt in (tarfile.GNU_FORMAT, tarfile.PAX_FORMAT):
    for order, with_dirs, prefix in (("natural", True, ""), ("dirs-last", True, ""), ("shuffled", True, "./"),
                                     ("natural", False, ""), ("shuffled", False, "./")):
        mk_tar("py%d" % i, fmt, order, with_dirs, prefix)
        i += 1
for comp in (zipfile.ZIP_STORED, zipfile.ZIP_DEFLATED):
    for order, with_dirs, prefix in (("natural", True, ""), ("dirs-last", True, ""), ("shuffled", False, ""),
                                     ("natural", False, "")):
        mk_zip("py%d" % i, comp, order, with_dirs, prefix)
        i += 1
json.dump(variants, open(os.path.join(out, "variants.json"), "w"))
