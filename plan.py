"""Which builds / processes each property's check runs, per tier."""


def R(build, shards=1, **kw):
    d = {"build": build, "shards": shards}
    d.update(kw)
    return d


PLAN = {
    "C01": {
        "quick": [R("v0", 4), R("v1", 2), R("miri", 2, tree_borrows_odd=True, timeout=1500)],
        "thorough": [R("v0", 16), R("v1", 8), R("v2", 4), R("asan", 4, scale=0.08), R("tsan", 4, scale=0.04),
                     R("miri", 12, tree_borrows_odd=True, timeout=7200)],
    },
    "C07": {
        "quick": [R("v0", 3), R("v1", 3), R("miri", 1, timeout=1500)],
        "thorough": [R("v0", 6), R("v1", 4), R("tsan", 3, scale=0.1), R("asan", 2, scale=0.2), R("miri", 6, timeout=7200)],
    },
    "C02": {
        "quick": [R("v0", 4), R("miri", 2, timeout=1500)],
        "thorough": [R("v0", 16), R("v2", 4), R("asan", 4, scale=0.3), R("miri", 8, timeout=7200)],
    },
    "C03": {
        "quick": [R("v0", 2), R("miri", 2, timeout=1500)],
        "thorough": [R("v0", 8), R("v2", 2), R("asan", 2), R("miri", 8, timeout=7200)],
    },
    "C04": {
        "quick": [R("v0", 4), R("embed", 1), R("miri", 1, timeout=1500)],
        "thorough": [R("v0", 16), R("v2", 2), R("embed", 1), R("asan", 4, scale=0.3), R("tsan", 4, scale=0.2), R("miri", 2, timeout=3600)],
    },
    "C11": {
        "quick": [R("v0", 4), R("embed", 1), R("miri", 1, timeout=1500)],
        "thorough": [R("v0", 16), R("embed", 1), R("asan", 2, scale=0.3), R("miri", 2, timeout=3600)],
    },
    "C05": {
        "quick": [R("v0", 4), R("v1", 2), R("miri", 2, timeout=1500)],
        "thorough": [R("v0", 16), R("v1", 8), R("v2", 4), R("asan", 4, scale=0.2), R("tsan", 4, scale=0.1), R("miri", 8, timeout=7200)],
    },
    "C06": {
        "quick": [R("v0", 4), R("v1", 2), R("miri", 2, timeout=1500)],
        "thorough": [R("v0", 16), R("v1", 8), R("tsan", 4, scale=0.1), R("miri", 8, timeout=7200)],
    },
    "C08": {
        "quick": [R("v0", 2), R("v1", 2), R("miri", 1, timeout=1500)],
        "thorough": [R("v0", 8), R("v1", 8), R("tsan", 2, scale=0.1), R("miri", 4, timeout=7200)],
    },
    "C15": {
        "quick": [R("v0", 4), R("miri", 1, timeout=1500)],
        "thorough": [R("v0", 4), R("v1", 2), R("miri", 2, timeout=3600)],
    },
    "C09": {
        "quick": [R("v0", 3), R("miri", 4, timeout=1500)],
        "thorough": [R("v0", 16), R("v1", 4), R("asan", 4, scale=0.1), R("miri", 12, timeout=7200)],
    },
    "C10": {
        "quick": [R("v0", 4), R("miri", 1, timeout=1500)],
        "thorough": [R("v0", 16), R("v1", 4), R("miri", 4, timeout=7200)],
    },
    "C12": {
        "quick": [R("v0", 4)],
        "thorough": [R("v0", 16), R("v1", 2), R("asan", 2, scale=0.3)],
    },
    "C13": {
        "quick": [R("v0", 4), R("asan", 2), R("miri", 2, tree_borrows_odd=True, timeout=1500)],
        "thorough": [R("v0", 16), R("v1", 4), R("v2", 2), R("asan", 6, scale=0.15), R("tsan", 4, scale=0.08),
                     R("miri", 10, tree_borrows_odd=True, timeout=7200)],
    },
    "C14": {
        "quick": [R("v0", 4), R("miri", 1, timeout=1500)],
        "thorough": [R("v0", 16), R("v1", 4), R("tsan", 2, scale=0.2), R("miri", 6, timeout=7200)],
    },
    "C16": {
        "quick": [R("v0", 2), R("miri", 4, mode="leakcheck", tree_borrows_odd=True, timeout=1500)],
        "thorough": [R("v0", 8), R("v2", 2), R("asan", 4, scale=0.2), R("tsan", 4, scale=0.1),
                     R("miri", 16, mode="leakcheck", tree_borrows_odd=True, timeout=7200)],
    },
    "C17": {
        "quick": [R("v0", 2), R("miri", 4, tree_borrows_odd=True, timeout=1500)],
        "thorough": [R("v0", 8), R("v1", 4), R("asan", 4, scale=0.1), R("tsan", 4, scale=0.05),
                     R("miri", 12, tree_borrows_odd=True, timeout=7200)],
    },
    "C18": {
        "quick": [R("v0", 2), R("miri", 4, timeout=1500)],
        "thorough": [R("v0", 16), R("v1", 4), R("tsan", 4, scale=0.1), R("miri", 12, timeout=7200)],
    },
}

LEVEL = {"C09": "fault_enumeration"}

ASSUMPTIONS = {
    "*": [
        "verdicts cover only the executions produced in this run (schedules the OS / Miri scheduler chose, hash seeds drawn)",
        "Linux x86-64, the toolchains installed in this sandbox",
        "the harness (instrumented source, reference model, ledgers, history checker) is trusted",
    ],
    "C16": ["Miri runs use smaller sizes than native runs"],
    "C17": ["once_cell's OnceCell is trusted for mutual exclusion of initialisers"],
    "C18": ["ids are minted by really reloading an asset (no public constructor exists)"],
}
