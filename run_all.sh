#!/bin/bash
# Runs every check of the given tier (default quick) and prints one line per property.
tier=${1:-quick}
cd "$(dirname "$0")"
for p in C01 C02 C03 C04 C05 C06 C07 C08 C09 C10 C11 C12 C13 C14 C15 C16 C17 C18; do
  t0=$(date +%s)
  out=$(./check $p $tier 2>&1)
  rc=$?
  t1=$(date +%s)
  echo "$p rc=$rc $((t1-t0))s :: $(echo "$out" | grep -E "^(VIOLATION|INCONCLUSIVE|KNOWN-FINDING|C[0-9]+ )" | cut -c1-160 | tr '\n' '|')"
done
