#!/usr/bin/env python3
"""Regenerates MANIFEST.json from plan.py + manifest_meta.py (kept valid at all times)."""
import json, os, subprocess, sys
sys.path.insert(0, os.path.dirname(os.path.abspath(__file__)))
from plan import PLAN, LEVEL
from manifest_meta import META, NOT_BUILT

props = [json.loads(l) for l in open("properties.jsonl")]
ids = [p["id"] for p in props]
checks = []
for pid in ids:
    if pid not in PLAN or pid not in META:
        continue
    m = META[pid]
    checks.append({
        "property_id": pid,
        "quick_cmd": "./check %s quick" % pid,
        "thorough_cmd": "./check %s thorough" % pid,
        "evidence_file": "/verif/evidence/%s.json" % pid,
        "replay_cmd_template": "./check %s --replay {path}" % pid,
        "engine": "vh",
        "level_claimed": {"category": LEVEL.get(pid, "exploration"), "text": m["text"], "design_ref": m["design_ref"]},
        "level_note": m["note"],
        "technique": m["technique"],
    })
na = [{"property_id": pid, "reason": NOT_BUILT.get(pid, "check not built yet")} for pid in ids if pid not in PLAN or pid not in META]
hooks = subprocess.run(["git", "-C", "/repo", "log", "--format=%H %s"], capture_output=True, text=True).stdout.splitlines()
hook_commits = [l.split()[0] for l in hooks if "verif hook" in l]
man = {
    "version": 1,
    "setup_cmd": "./check --setup",
    "hooks": {
        "guard": "--cfg assets_manager_verif",
        "enable": "RUSTFLAGS=\"--cfg assets_manager_verif\" (set by ./check for every build of the harness, which path-depends on /repo)",
        "baseline_off_cmd": "cd /repo && cargo test --workspace --no-fail-fast --offline",
        "source_commits": hook_commits,
        "add_only": True,
    },
    "engines": [{
        "name": "vh", "path": "/verif/harness",
        "serves_properties": [c["property_id"] for c in checks],
        "kind_free_text": "Rust harness linking the real crate from /repo (instrumented in-memory source, reference-model oracle, token/allocator ledgers, history checkers), built natively (std locks, parking_lot, no-ahash), under AddressSanitizer, ThreadSanitizer and Miri; driven by ./check (python3)",
    }],
    "checks": checks,
    "not_applicable": na,
    "notes": "Technique family: runtime monitoring and sanitizers. Exit 2 + INCONCLUSIVE line = coverage floor / watchdog, never folded into pass or violation. Known findings: /verif/known_findings.json.",
}
json.dump(man, open("MANIFEST.json", "w"), indent=1)
print("checks:", [c["property_id"] for c in checks], "not claimed:", [n["property_id"] for n in na])
