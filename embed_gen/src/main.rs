include!(concat!(env!("VH_EMBED_DIR"), "/main.rs"));
