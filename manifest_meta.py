META = {
 "C16": {
  "text": "Held on K executions: every constructor x length class, clone/drop storms across up to 16 threads with content verified at each hand-off, UTF-8 acceptance compared with std over all byte strings up to a length bound plus mutated longer ones, comparison/order/hash compared with slices; the accounting allocator checks every free against the allocating layout and a bracketed region for leaks; Miri (stacked and tree borrows, leak check on normal exit), ASan and TSan watch the same workloads. Exploration, not proof: only the executions produced.",
  "design_ref": "DESIGN.md §5 C16, §3.5, §4",
  "note": "Trusts std::str::from_utf8 as the UTF-8 oracle, the harness allocator wrapper, and Miri/ASan/TSan; Miri runs use small sizes.",
  "technique": "runtime monitoring: allocator ledger + content oracles under native/Miri/ASan/TSan builds",
 },
 "C17": {
  "text": "Held on K executions: all {fail,panic,succeed} initialiser sequences up to length 4 for seeds with Drop / without Drop / with a panicking destructor; thousands of K-thread races with a common start; get() observed while an initialiser is provably parked; the cell reloaded through a real cache. A token ledger checks seed/value exclusivity, exactly-once drops and leaks after every step; Miri/ASan/TSan watch the same code paths.",
  "design_ref": "DESIGN.md §5 C17, §3.4",
  "note": "Trusts once_cell for initialiser mutual exclusion; a blocked get() is reported only with /proc evidence (thread asleep while the initialiser is parked).",
  "technique": "runtime monitoring: drop ledger + race stress + bounded-exhaustive fault sequences, Miri/ASan/TSan",
 },
 "C18": {
  "text": "ReloadId::update checked exhaustively over all pairs and all sequences up to length 4 of honestly minted ids; concurrent histories of update/fetch_max/swap/store/load on one AtomicReloadId are recorded at the call boundary and checked for linearizability against a sequential max-register (exhaustive search per history, step-budgeted), plus direct max-register rules (final = max offered, each growth reported to exactly one caller). Miri adds weak-memory / scheduler diversity on 3-thread histories, TSan in thorough.",
  "design_ref": "DESIGN.md §5 C18, §3.6",
  "note": "Linearizability is decided per recorded history (<= 49 ops); a checker budget overrun is inconclusive. Timestamps come from one global atomic clock.",
  "technique": "runtime monitoring: recorded histories + linearizability checker against a sequential model, Miri/TSan",
 },
}
META.update({
 "C02": {
  "text": "Lock-step execution against a reference map model: every sequence up to length 3 (quick) / 4 (thorough) over a 41-operation alphabet (load, load_owned, get_cached, get_or_insert, contains, remove, take, clear, directory loads on 2 ids x leaf/compound/storable-only types) on 3 source configurations, plus random length-40 histories over 8 ids x 8 types with source edits, each on AssetCache (with / without reloader), LocalAssetCache and their AnyCache views. After every step: results, presence of every key, values, handle identity, and a token ledger (exactly the model's entries are alive). Miri/ASan repeat a sample.",
  "design_ref": "DESIGN.md §5 C02, §3.3",
  "note": "The model (harness/src/model.rs) is the executable statement of the map semantics; cross-front-end equality follows from each front-end agreeing with the model. Bounded-exhaustive only up to the stated length; random beyond.",
  "technique": "runtime monitoring: reference-model oracle in lock-step over bounded-exhaustive and random API histories",
 },
 "C03": {
  "text": "Exhaustive product of extension list (0-3 entries incl. empty extension) x per-extension file state (absent, unreadable with one of 6 io kinds, undecodable, valid) x default_value (none/Ok/Err) x FileContent variant (7380 cases), each followed by 'failure caches nothing' and repair+retry; compound chains of depth 1-6 failing at each level with the nested error chain checked; every order of three repair edits from every broken start; byte-exactness through the harness identity loader and the crate's Bytes/String/Parse loaders for empty/1B/4KiB+-1/MiB/non-UTF-8 contents.",
  "design_ref": "DESIGN.md §5 C03",
  "note": "Only the error *class* (conversion > io > not found > no default) and the named id are judged, as the statement says; which of two same-class errors survives is not.",
  "technique": "runtime monitoring: reference-model oracle over an exhaustive input product with injected source faults",
 },
 "C05": {
  "text": "Random recipe DAGs (2-12 compound nodes over 1-5 leaves; load / try / get_cached / load_owned / directory / raw-read edges) are loaded through the real cache, then rounds of edits (value, rewiring, break, repair, create, delete) are notified singly or batched with duplicates and noise; after a logical quiescence barrier (hook H-A) and hot_reload() (or in enhance_hot_reloading mode) every affected cached asset must equal a fresh evaluation of its recipe against the current source and the values currently in the real cache; failed reloads must keep the old value. One known finding (reload order computed from the old graph) is reported with its own signature.",
  "design_ref": "DESIGN.md §5 C05, §3.7",
  "note": "Edits happen strictly after the load returned; cache-presence observations (contains) are not treated as dependencies; entries created as a side effect of a pass are not judged in that pass. Real-filesystem delivery of notifications is C12's subject.",
  "technique": "runtime monitoring: reference-model oracle over generated edit/notification histories with a logical quiescence barrier",
 },
 "C06": {
  "text": "On the histories of C05 plus never-notified edits, notifications without edit and for unknown entries: per pass and per cached asset the reload-id delta must be 0 for unaffected assets, at most 1 for affected ones, at least 1 when the value changed and 0 on a failed reload; ReloadWatcher::reloaded and reloaded_global must equal 'id moved since last asked'; ids start at NEVER; every source read made on the reloader thread must lie inside a pass window and be one the model performs for an affected asset.",
  "design_ref": "DESIGN.md §5 C06",
  "note": "Numeric reload ids are read from the Debug form of ReloadId. Read attribution is skipped in passes where the known reload-order defect can change which reads happen.",
  "technique": "runtime monitoring: per-pass invariants on reload ids / watcher answers and an instrumented source's read log checked against the model",
 },
})
META.update({
 "C09": {
  "text": "Fault enumeration: for generated recipe DAGs a clean run lists every source read and every loader invocation of the phase under test (initial load on the calling thread; reload pass on the reloader thread); one run per read x 6 io::ErrorKinds and per loader invocation x {Err, panic}, each compared step by step (result of the faulted call, presence and value of every key, reload ids) with the reference model given the same fault, followed by a recording probe (a compound loaded afterwards must still be reloaded when its file changes), repair and retry. Loader panics on the reloader thread run in a child process whose observer turns 'caller blocked while no reloader thread exists' into positive evidence.",
  "design_ref": "DESIGN.md §5 C09, §3.10",
  "note": "On the reloader thread a fault point is (entry, every read during the pass), because which of two independent assets performs the n-th read of a shared file depends on hash order; on the calling thread it is (entry, n-th read). Single faults only.",
  "technique": "runtime monitoring: fault injection at every enumerated read / loader invocation with a reference-model oracle and a /proc-based blocked-caller observer",
 },
 "C10": {
  "text": "Every history up to length 4 (quick) / 5 (thorough) over {load, remove, take, clear, get_or_insert, edit+notify+barrier+hot_reload} on one key, closed by a final notified edit, for a reloadable leaf, a type that opts out, a compound and a storable-only payload, on caches built with_source, without_hot_reloading, over a source without hot-reloading support and one whose configuration fails, plus enhance_hot_reloading mode and random longer histories: after every pass value, token, reload id and Handle::get() address/content of every protected entry are unchanged.",
  "design_ref": "DESIGN.md §5 C10",
  "note": "Protected = created by get_or_insert, of a type with HOT_RELOADED = false, or held by a cache without reloader. LocalAssetCache is covered by C02 (it has no reloader and cannot receive notifications).",
  "technique": "runtime monitoring: invariant on hooked state (value/token/reload id/address) over bounded-exhaustive API+notification histories",
 },
 "C13": {
  "text": "A token ledger (one atomic per value) makes creation and drop observable: after every step of random API histories over payloads of different size/alignment (ZST, u8, heap-owning, align(64), 4 KiB) on every front-end, and after every step and pass of reload histories, exactly the tokens of the cached entries are alive and nothing was dropped twice; a reader holding a guard across a pending reload pins the old value; N-thread insertion races leave one value alive and every loser dropped by the time its call returned; an accounting allocator brackets create-use-drop of whole caches; the full (stored, requested) type matrix through is / downcast_ref / AssetReadGuard::downcast / get_cached never reinterprets. ASan and Miri run the same workloads.",
  "design_ref": "DESIGN.md §5 C13, §3.4, §3.5",
  "note": "Allocator brackets use caches without reloader (thread exit is asynchronous). Miri runs are small.",
  "technique": "runtime monitoring: drop/creation ledger + accounting allocator + ASan/Miri over model-checked histories and races",
 },
 "C14": {
  "text": "Recipes enumerated as wrapper-chain(atom)+trailing-op (chains up to length 2 over no_record / helper thread / second reloading cache / cache without reloader / helper thread on the second cache / catch_unwind around a panicking nested load / around a direct panic; 9 atoms; 3 trailing ops: 1539 recipes, sampled in quick, all in thorough) plus random deeper nestings; after loading, one single-entry edit per involved file in both reloading caches, each its own pass: the set of handles whose reload id moved must equal the model's set exactly and nothing else may change.",
  "design_ref": "DESIGN.md §5 C14",
  "note": "Panics are only generated inside catch_unwind (an uncaught loader panic is C09's subject).",
  "technique": "runtime monitoring: exact reloaded-set oracle from the reference model over enumerated recipe nestings and single-entry edits",
 },
})
META.update({
 "C08": {
  "text": "Bounded-progress form of the liveness claim: in every produced execution every hot_reload() call returned, the process did not die, and no state was reached where a caller sleeps inside hot_reload while the reloader thread sleeps too (or is gone) with no CPU use and no completed call for 1.2 s. Configurations: 1-16 concurrent callers x 0-4 loader/get_or_insert threads x event bursts (tens of thousands of calls), each caller checking right after return that the reload it asked for is done, plus dependency shapes whose recorded graph is cyclic (mutual get_cached, self look-up, 3-cycle, mutual under a common parent); std locks and parking_lot; every configuration in a child process with a /proc observer.",
  "design_ref": "DESIGN.md §5 C08, §3.9, §3.10",
  "note": "Unbounded 'always returns' cannot be decided by a finite run; a parent wall-clock watchdog expiry is inconclusive. Callers wait for the event barrier by spinning, so a waiting caller never looks blocked.",
  "technique": "runtime monitoring: stress in child processes with a /proc-based deadlock/crash observer and a per-call postcondition",
 },
 "C15": {
  "text": "create / use / drop sequences of 1-32 caches over in-memory sources (sender kept by the source, by the harness, dropped), a custom source and the real FileSystem source, dropped idle / right after hot_reload / with events queued / right after loads; /proc/self/task gives, for the assets_hot_reload threads attributed to the caches by tid difference, existence, state and CPU ticks: a violation needs positive evidence (>= 20 % of a CPU while idle, or still existing and spinning over three windows after the drop). 15-50 create/drop cycles show that threads and load do not accumulate. Under Miri the release of the reloader's clone of the source is the logical signal.",
  "design_ref": "DESIGN.md §5 C15, §3.9",
  "note": "'Sleeps for good' cannot be refuted finitely and is accepted; notify's own inotify thread is not judged. CPU-time based, so a loaded machine cannot turn a sleeping thread into a violation.",
  "technique": "runtime monitoring: /proc thread-state and CPU-time observer over create/use/drop sequences",
 },
})
META.update({
 "C01": {
  "text": "Every operation of thousands of multi-thread rounds (2-16 threads, load / get_cached / get_or_insert / contains through AssetCache and its AnyCache view, 1-8 ids x 3 types, common start, fresh hash seed per round, 4-64 shards chosen through CPU affinity, epochs separated by remove/take/clear) is recorded at the call boundary with one logical clock; each key's history is checked: one handle address and one value, presence never flips back (cross-checked by an exhaustive linearizability search against an insert-once register), losers dropped when their call returned, exactly one survivor. Racers are forced past the cache-miss check together by a rendezvous inside the loader. 64 old handles are dereferenced by reader threads during 20 000 unrelated insertions. Native (std locks, parking_lot, SipHash), ASan, TSan and Miri builds.",
  "design_ref": "DESIGN.md §5 C01, §3.6, §3.8",
  "note": "Partitioned by key (a map is linearizable iff every key's sub-history is). Interleavings are those the OS / Miri scheduler produced; distinct interleaving hashes are reported.",
  "technique": "runtime monitoring: recorded concurrent histories + per-key linearizability / identity / ledger oracles, forced races, ASan/TSan/Miri",
 },
 "C07": {
  "text": "Self-checking 4 KiB values (all words equal + checksum + live token) are read by 1-12 threads (short reads, guards held across yields with value/token/reload id pinned, mapped / try_mapped guards, untyped guards downcast, a compound snapshot) against a stream of reloads in enhance_hot_reloading mode; in hot_reload() mode a sampler records (logical time before, reload id, generation, logical time after) of every read and every observed change must overlap the [enter, exit] interval of some hot_reload call, while each caller must read at least its own generation right after return. std locks and parking_lot; TSan/Miri watch the value bytes.",
  "design_ref": "DESIGN.md §5 C07",
  "note": "Logical clock = one global atomic counter; no wall-clock verdicts.",
  "technique": "runtime monitoring: self-checking values + guard-pinned snapshots + interval-overlap checker over sampled reads, TSan/Miri",
 },
})
META.update({
 "C04": {
  "text": "Generated trees (names with ASCII, unicode, spaces; empty extension; one stem with several extensions; a directory and a file sharing an id; paths > 100 bytes; implied-only and empty directories; empty / NUL / 4 KiB contents) are materialised on disk, as tar and zip written in-process (natural / dirs-last / shuffled member order, with and without directory members, './' prefixes, stored and deflated) and independently by python3 tarfile (GNU, PAX) / zipfile, each opened in memory and file-backed (27 source forms per tree), and embedded at compile time by a generated crate; the ground truth is the generated tree: every directory's exact child multiset, every file's bytes, exists, NotFound for absent and kind-confused entries; 8 threads then read one source at once.",
  "design_ref": "DESIGN.md §5 C04",
  "note": "For archive forms without directory members the truth omits empty directories (they are not representable). The embedded form is checked by /verif/embed_gen, rebuilt on every run.",
  "technique": "runtime monitoring: differential oracle (generated tree as ground truth) over every source kind and archive form",
 },
 "C11": {
  "text": "On the trees and source forms of C04, for every directory id (root included) and element types with one extension, several extensions incl. the empty one, a hand-written DirLoadable compound and an Arc-wrapped asset: load_dir ids == sorted duplicate-free expected set, load_rec_dir ids == union over the subtree (multiset and set), iter loads precisely those ids, iter_cached yields precisely the cached ones, a missing directory is an error, and a sub-directory whose read_dir is denied (fault-injecting source wrapper) is skipped without hiding its siblings; on AssetCache and LocalAssetCache.",
  "design_ref": "DESIGN.md §5 C11",
  "note": "Unreadable directories are simulated by a wrapper source (the sandbox runs as root, chmod would be ignored).",
  "technique": "runtime monitoring: expected-set oracle from the generated tree over every source kind, with injected read_dir faults",
 },
 "C12": {
  "text": "(a) every entry of generated trees (root, top level, nested; files with / without extension; directories), vanished, outside and inexpressible paths, in './' and 'sibling/../' spellings, x 16 notify event kinds x one or two watched roots are fed to the crate's real event handler (hook H-B) and the delivered entries are compared with the inverse of path_of (+ parent for create / rename / remove); (b) real create / modify / delete / mkdir / rmdir / rename histories on a scratch directory through FsWatcherBuilder and inotify, each operation closed by a sentinel event (FIFO); (c) id_of_path(path_of(E)) == E and injectivity of path_of over all valid entries up to depth 3.",
  "design_ref": "DESIGN.md §5 C12, §6 (hook H-B)",
  "note": "Where the kind of a vanished path is unknowable either kind is accepted; EventKind::Any / Access / Other are only required not to name anything unrelated. Cannot run under Miri (inotify FFI).",
  "technique": "runtime monitoring: inverse-function oracle over synthetic events fed to the real handler plus real inotify histories with a FIFO sentinel barrier",
 },
})
NOT_BUILT = {}

# Workload extensions made after the three rounds of seeded changes (DESIGN.md 10.4); appended to
# the level text of the check concerned.
EXTRA = {
 "C01": " Caches are also built under non-power-of-two CPU counts (sched_setaffinity), i.e. shard counts that are not a power of two; every fourth round spells its ids with '/'; racers whose losing value panics in its destructor must leave the cache usable.",
 "C02": " Ids include one containing '/' and one starting with '.'; every third random tree has compounds that call get_or_insert while being loaded, also on their own key; caches are built under 1,2,3,5,6,7,12,16 CPUs.",
 "C03": " Plus the real FileSystem source with entries that exist but cannot be read (symbolic link loops) or are of the wrong kind, every state pair over two extensions, three front-ends, with and without default_value; half of the undecodable files make the loader fail with an io::Error.",
 "C04": " Trees contain occasional 40-300 kB incompressible files and, in one of seven constructs, names that cannot be ids among valid ones (only the valid entries are judged); an extra filesystem form reached through symbolic links, archive members spelled 'pad/../<path>', a root directory with a dot in its name, and trees that are a single empty directory (archives without members).",
 "C05": " Plus: a registration backlog ('burst') shape, changes pending at enhance_hot_reloading, and histories on the real FileSystem source with the OS watcher (sentinel file as FIFO barrier).",
 "C06": " Plus: four threads polling reloaded_global at the same moment after exactly one rewrite; a reader holding a guard while another thread is inside hot_reload (nothing may report the reload before the rewrite); ReloadWatcher::last_reload_id and watchers created after reloads; a zero-sized compound; an orphaned graph entry that is notified.",
 "C07": " Readers also use copied()/cloned() on 512-byte and 12-byte Copy assets and hold plain / mapped guards on a 4-byte asset.",
 "C08": " Plus configurations: enhance_hot_reloading followed by hot_reload calls, reloads that load 60-220 assets never loaded before ('fanout'), a source that drops its EventSender while callers are inside hot_reload, an endless self-sustained stream of notifications in enhance_hot_reloading mode, hand-stored entries under keys the graph knows, and a 1500-link dependency chain.",
 "C09": " Nested compound loads are guarded by catch_unwind and followed by further reads, every scenario ends with one single-entry edit per leaf judged by attribution; plus faults of the medium below Tar / Zip sources (the reader ends or fails inside a member after indexing).",
 "C10": " Plus Arc<T> / OnceInitCell<T,_> of an opt-out type, get_or_insert called from inside Compound::load (calling thread and reloader thread) on keys the dependency graph already knows, and a source that keeps its sender although its configuration failed.",
 "C11": " Plus a hand-written DirLoadable that overrides sub_directories, plain and wrapped in Arc; trees with unrepresentable names among valid ones; exactly the n-th read_dir of a directory failing.",
 "C12": " Real histories use five spellings of the watched root (canonical, relative, './'-relative, through a symlink, with '..'), a second root whose spelling continues the first one's, overlapping roots, symbolic links to files and directories, hidden files, and notifications about a watched root that no longer exists.",
 "C13": " Plus readers taking short guards during a stream of 400 reloads, and a guard on a get_or_insert value (key known to the dependency graph) during hot_reload; allocator brackets are taken only after helper threads have gone.",
 "C14": " Atoms include load / load_owned of a not yet cached opt-out type a two-extension leaf whose first file is created later, a recursive directory over three levels, and two loads overlapping on two threads (one and two caches) with a rendezvous inside the loaders.",
 "C15": " Plus: OS-watcher thread teardown after drop, a custom source that joins its own watcher thread in Drop (quiescent-cycle verdict), enhance_hot_reloading idleness after changes that fail or concern load_owned files, and 'no native watcher' produced in a child process inside a private user namespace (max_inotify_instances = 0).",
 "C16": " Plus lock-step concurrent drops inside an allocator bracket, read-then-drop without later synchronisation (for the race detectors), and iterators with absent / wrong / inexact size hints.",
 "C17": " Every sequence containing a panic also runs through get_or_init; a value type without drop glue.",
}
for k, v in EXTRA.items():
    if k in META and v.strip() not in META[k]["text"]:
        META[k]["text"] = META[k]["text"] + v
