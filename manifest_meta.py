META = {
 "C16": {
  "text": "Held on K executions: every constructor x length class, clone/drop storms across up to 16 threads with content verified at each hand-off, UTF-8 acceptance compared with std over all byte strings up to a length bound plus mutated longer ones, comparison/order/hash compared with slices; the accounting allocator checks every free against the allocating layout and a bracketed region for leaks; Miri (stacked and tree borrows, leak check on normal exit), ASan and TSan watch the same workloads. Exploration, not proof: only the executions produced.",
  "design_ref": "DESIGN.md §5 C16, §3.5, §4",
  "note": "Trusts std::str::from_utf8 as the UTF-8 oracle, the harness allocator wrapper, and Miri/ASan/TSan; Miri runs use small sizes.",
  "technique": "runtime monitoring: allocator ledger + content oracles under native/Miri/ASan/TSan builds",
 },
 "C17": {
  "text": "Held on K executions: all {fail,panic,succeed} initialiser sequences up to length 4 for seeds with Drop / without Drop / with a panicking destructor; thousands of K-thread races with a common start; get() observed while an initialiser is provably parked; the cell reloaded through a real cache. A token ledger checks seed/value exclusivity, exactly-once drops and leaks after every step; Miri/ASan/TSan watch the same code paths.",
  "design_ref": "DESIGN.md §5 C17, §3.4",
  "note": "Trusts once_cell for initialiser mutual exclusion; a blocked get() is reported only with /proc evidence (thread asleep while the initialiser is parked).",
  "technique": "runtime monitoring: drop ledger + race stress + bounded-exhaustive fault sequences, Miri/ASan/TSan",
 },
 "C18": {
  "text": "ReloadId::update checked exhaustively over all pairs and all sequences up to length 4 of honestly minted ids; concurrent histories of update/fetch_max/swap/store/load on one AtomicReloadId are recorded at the call boundary and checked for linearizability against a sequential max-register (exhaustive search per history, step-budgeted), plus direct max-register rules (final = max offered, each growth reported to exactly one caller). Miri adds weak-memory / scheduler diversity on 3-thread histories, TSan in thorough.",
  "design_ref": "DESIGN.md §5 C18, §3.6",
  "note": "Linearizability is decided per recorded history (<= 49 ops); a checker budget overrun is inconclusive. Timestamps come from one global atomic clock.",
  "technique": "runtime monitoring: recorded histories + linearizability checker against a sequential model, Miri/TSan",
 },
}
NOT_BUILT = {}
