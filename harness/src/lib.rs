//! Verification harness for `assets_manager` (runtime monitoring family).
//!
//! Everything here *observes executions of the real crate*: instrumented
//! sources, self-describing values, ledgers and history checkers.  See
//! /verif/DESIGN.md.

#![allow(clippy::type_complexity)]

pub mod alloc_ledger;
pub mod assets;
pub mod hist;
pub mod ledger;
pub mod logcap;
pub mod mem;
pub mod model;
pub mod procfs;
pub mod props;
pub mod reload;
pub mod report;
pub mod rng;
pub mod scen;
pub mod trees;
pub mod util;

pub use report::{Args, Report};
pub use rng::Rng;
