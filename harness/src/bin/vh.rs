#[cfg(feature = "alloc_ledger")]
#[global_allocator]
static GLOBAL: vh::alloc_ledger::Accounting = vh::alloc_ledger::Accounting;

fn main() {
    let argv: Vec<String> = std::env::args().skip(1).collect();
    let args = vh::Args::parse(&argv);
    if args.prop == "noop" {
        return;
    }
    vh::logcap::install();
    vh::util::install_panic_hook();
    let rep = match std::panic::catch_unwind(|| vh::props::run(&args)) {
        Ok(rep) => rep,
        Err(p) => {
            // A panic escaping a property run is evidence (the crate panicked
            // where no panic is allowed, or an oracle assertion tripped).
            let mut rep = vh::Report::new(&args);
            let msg = vh::util::panic_message(&*p);
            rep.eval();
            rep.violation(
                "unexpected-panic",
                &format!("{}/unexpected-panic", args.prop),
                serde_json::json!({ "message": msg }),
                serde_json::json!({ "seed": args.seed, "shard": args.shard, "mode": args.mode }),
            );
            rep
        }
    };
    // Under Miri, a run in "leakcheck" mode returns from `main` normally so
    // that Miri's leak checker and its check for still-running threads apply.
    if cfg!(miri) && args.mode.as_deref() == Some("leakcheck") && rep.exit_code() == 0 {
        rep.write();
        return;
    }
    vh::util::quiesce_reloaders();
    rep.finish()
}
