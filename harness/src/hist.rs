//! History log (client boundary) and small linearizability checker.

use crate::mem::tick;

#[derive(Clone, Debug)]
pub struct HEv<O, R> {
    pub thread: u32,
    pub op: O,
    pub call: u64,
    pub ret: u64,
    pub result: R,
}

/// Per-thread recorder; merge the per-thread vectors afterwards.
pub struct Recorder<O, R> {
    pub thread: u32,
    pub evs: Vec<HEv<O, R>>,
}

impl<O, R> Recorder<O, R> {
    pub fn new(thread: u32) -> Self {
        Recorder { thread, evs: vec![] }
    }

    /// Records the call timestamp before invoking and the return timestamp after.
    pub fn call(&mut self, op: O, f: impl FnOnce() -> R) -> &R {
        let call = tick();
        let result = f();
        let ret = tick();
        self.evs.push(HEv {
            thread: self.thread,
            op,
            call,
            ret,
            result,
        });
        &self.evs.last().unwrap().result
    }
}

/// A deterministic sequential specification.
pub trait Spec: Clone {
    type Op;
    type Ret: PartialEq;
    fn apply(&mut self, op: &Self::Op) -> Self::Ret;
}

#[derive(Debug, PartialEq, Eq)]
pub enum Lin {
    Ok,
    /// no linearization exists (positive evidence)
    Violation,
    /// step budget exhausted
    Inconclusive,
}

/// Exhaustive linearizability search (Wing & Gong) with a step budget.
pub fn linearizable<S: Spec>(
    init: &S,
    hist: &[HEv<S::Op, S::Ret>],
    budget: &mut u64,
) -> Lin {
    let n = hist.len();
    if n == 0 {
        return Lin::Ok;
    }
    assert!(n <= 64, "history too long for the bitmask search");
    fn go<S: Spec>(
        state: &S,
        hist: &[HEv<S::Op, S::Ret>],
        done: u64,
        budget: &mut u64,
    ) -> Lin {
        let n = hist.len();
        if done == (if n == 64 { u64::MAX } else { (1u64 << n) - 1 }) {
            return Lin::Ok;
        }
        // earliest return among pending ops: candidates must have been called before it
        let min_ret = (0..n)
            .filter(|i| done & (1 << i) == 0)
            .map(|i| hist[i].ret)
            .min()
            .unwrap();
        let mut inconclusive = false;
        for i in 0..n {
            if done & (1 << i) != 0 || hist[i].call > min_ret {
                continue;
            }
            if *budget == 0 {
                return Lin::Inconclusive;
            }
            *budget -= 1;
            let mut s = state.clone();
            if s.apply(&hist[i].op) == hist[i].result {
                match go(&s, hist, done | (1 << i), budget) {
                    Lin::Ok => return Lin::Ok,
                    Lin::Inconclusive => inconclusive = true,
                    Lin::Violation => {}
                }
            }
        }
        if inconclusive {
            Lin::Inconclusive
        } else {
            Lin::Violation
        }
    }
    go(init, hist, 0, budget)
}

/// Hash of the order in which events of different threads were linearised by
/// the global clock: the sequence of (thread, call/ret) markers.
pub fn interleaving_hash<O, R>(hist: &[HEv<O, R>]) -> u64 {
    let mut marks: Vec<(u64, u32, u8)> = Vec::with_capacity(hist.len() * 2);
    // normalise thread numbers by first appearance so the hash does not
    // depend on absolute thread ids
    for e in hist {
        marks.push((e.call, e.thread, 0));
        marks.push((e.ret, e.thread, 1));
    }
    marks.sort();
    let mut names: Vec<u32> = vec![];
    let mut h = 0xcbf2_9ce4_8422_2325u64;
    for (_, t, k) in marks {
        let idx = match names.iter().position(|x| *x == t) {
            Some(i) => i,
            None => {
                names.push(t);
                names.len() - 1
            }
        };
        h = crate::rng::mix(h, (idx as u64) << 1 | k as u64);
    }
    h
}
