//! Token ledger: makes creation / drop of tracked values observable.
//!
//! Every tracked value owns one `Token`.  The ledger is a pre-allocated
//! vector of atomics (one per serial) so the monitor is itself race-free
//! and allocation-free on the hot path.

use std::sync::atomic::{AtomicU64, AtomicU8, AtomicUsize, Ordering::SeqCst};
use std::sync::OnceLock;

const FREE: u8 = 0;
const LIVE: u8 = 1;
const DROPPED: u8 = 2;

#[cfg(not(miri))]
const CAP: usize = 1 << 23;
#[cfg(miri)]
const CAP: usize = 1 << 14;

struct Ledger {
    state: Box<[AtomicU8]>,
    next: AtomicUsize,
    double_drops: AtomicU64,
    overflow: AtomicU64,
}

fn ledger() -> &'static Ledger {
    static L: OnceLock<Ledger> = OnceLock::new();
    L.get_or_init(|| Ledger {
        state: (0..CAP).map(|_| AtomicU8::new(FREE)).collect(),
        next: AtomicUsize::new(1),
        double_drops: AtomicU64::new(0),
        overflow: AtomicU64::new(0),
    })
}

/// A unique, drop-tracked marker.  Not `Clone`: one token = one value.
#[derive(Debug)]
pub struct Token {
    serial: usize,
}

impl Token {
    pub fn new() -> Token {
        let l = ledger();
        let serial = l.next.fetch_add(1, SeqCst);
        if serial < CAP {
            l.state[serial].store(LIVE, SeqCst);
        } else {
            l.overflow.fetch_add(1, SeqCst);
        }
        Token { serial }
    }

    #[inline]
    pub fn serial(&self) -> usize {
        self.serial
    }

    /// `true` while the owning value has not been dropped.
    #[inline]
    pub fn is_live(&self) -> bool {
        is_live(self.serial)
    }
}

impl Default for Token {
    fn default() -> Self {
        Token::new()
    }
}

impl Drop for Token {
    fn drop(&mut self) {
        let l = ledger();
        if self.serial < CAP {
            let prev = l.state[self.serial].swap(DROPPED, SeqCst);
            if prev != LIVE {
                l.double_drops.fetch_add(1, SeqCst);
            }
        }
    }
}

pub fn is_live(serial: usize) -> bool {
    serial < CAP && ledger().state[serial].load(SeqCst) == LIVE
}

pub fn is_dropped(serial: usize) -> bool {
    serial < CAP && ledger().state[serial].load(SeqCst) == DROPPED
}

/// Position in the serial sequence; tokens created later have serial >= mark.
pub fn mark() -> usize {
    ledger().next.load(SeqCst)
}

/// Serials in `from..mark()` that are still live.
pub fn live_since(from: usize) -> Vec<usize> {
    let l = ledger();
    let to = l.next.load(SeqCst).min(CAP);
    (from..to)
        .filter(|&s| l.state[s].load(SeqCst) == LIVE)
        .collect()
}

pub fn created_since(from: usize) -> usize {
    ledger().next.load(SeqCst).saturating_sub(from)
}

pub fn double_drops() -> u64 {
    ledger().double_drops.load(SeqCst)
}

pub fn overflowed() -> bool {
    ledger().overflow.load(SeqCst) > 0
}

pub fn capacity_left() -> usize {
    CAP.saturating_sub(ledger().next.load(SeqCst))
}
