//! Small helpers: CPU affinity (to choose the shard count of a cache),
//! quiet panics, scratch directories, spin / yield.

use std::path::PathBuf;
use std::sync::atomic::{AtomicBool, AtomicU64, Ordering::SeqCst};

/// Runs `f` with the calling thread restricted to `ncpus` CPUs, so that
/// `available_parallelism()` (used by `AssetCache` to size its shard array)
/// reports `ncpus`; the previous mask is restored afterwards.
#[cfg(not(miri))]
pub fn with_cpus<T>(ncpus: usize, f: impl FnOnce() -> T) -> T {
    unsafe {
        let mut old: libc::cpu_set_t = std::mem::zeroed();
        let ok = libc::sched_getaffinity(0, std::mem::size_of::<libc::cpu_set_t>(), &mut old) == 0;
        if !ok {
            return f();
        }
        let mut new: libc::cpu_set_t = std::mem::zeroed();
        let mut n = 0;
        for cpu in 0..libc::CPU_SETSIZE as usize {
            if libc::CPU_ISSET(cpu, &old) {
                libc::CPU_SET(cpu, &mut new);
                n += 1;
                if n == ncpus {
                    break;
                }
            }
        }
        libc::sched_setaffinity(0, std::mem::size_of::<libc::cpu_set_t>(), &new);
        let r = f();
        libc::sched_setaffinity(0, std::mem::size_of::<libc::cpu_set_t>(), &old);
        r
    }
}

#[cfg(miri)]
pub fn with_cpus<T>(_ncpus: usize, f: impl FnOnce() -> T) -> T {
    f()
}

pub fn shard_count_for_cpus(ncpus: usize) -> usize {
    4 * ncpus.next_power_of_two()
}

static QUIET: AtomicBool = AtomicBool::new(false);
static PANICS: AtomicU64 = AtomicU64::new(0);

/// Installs a panic hook that counts panics and prints nothing for panics
/// whose payload starts with "vh:" (deliberate, injected panics).
pub fn install_panic_hook() {
    let prev = std::panic::take_hook();
    std::panic::set_hook(Box::new(move |info| {
        PANICS.fetch_add(1, SeqCst);
        let msg = info
            .payload()
            .downcast_ref::<&str>()
            .map(|s| s.to_string())
            .or_else(|| info.payload().downcast_ref::<String>().cloned())
            .unwrap_or_default();
        if msg.starts_with("vh:") || QUIET.load(SeqCst) {
            return;
        }
        prev(info);
    }));
}

pub fn quiet_panics(on: bool) {
    QUIET.store(on, SeqCst);
}

pub fn panics_seen() -> u64 {
    PANICS.load(SeqCst)
}

pub fn panic_message(p: &(dyn std::any::Any + Send)) -> String {
    p.downcast_ref::<&str>()
        .map(|s| s.to_string())
        .or_else(|| p.downcast_ref::<String>().cloned())
        .unwrap_or_else(|| "<non-string panic>".into())
}

/// A fresh scratch directory under /verif/work (never /tmp).
pub fn scratch_dir(tag: &str) -> PathBuf {
    static N: AtomicU64 = AtomicU64::new(0);
    let base = std::env::var("VH_WORK").unwrap_or_else(|_| "/verif/work".into());
    let p = PathBuf::from(base).join(format!(
        "{}-{}-{}",
        tag,
        std::process::id(),
        N.fetch_add(1, SeqCst)
    ));
    let _ = std::fs::remove_dir_all(&p);
    std::fs::create_dir_all(&p).expect("create scratch dir");
    p
}

#[inline]
pub fn spin(n: u64) {
    for _ in 0..n {
        std::hint::spin_loop();
    }
}

/// Yields until `cond()` or until `max_ms` wall-clock elapsed (watchdog only;
/// a `false` return is *inconclusive*, never a violation).
pub fn wait_until(max_ms: u64, mut cond: impl FnMut() -> bool) -> bool {
    let start = std::time::Instant::now();
    let mut i = 0u32;
    loop {
        if cond() {
            return true;
        }
        if start.elapsed().as_millis() as u64 > max_ms {
            return false;
        }
        i += 1;
        if i < 200 {
            std::thread::yield_now();
        } else {
            #[cfg(not(miri))]
            std::thread::sleep(std::time::Duration::from_micros(200));
            #[cfg(miri)]
            std::thread::yield_now();
        }
    }
}

/// Waits until the process has no more than `baseline` threads: a thread whose closure has
/// returned (so that `scope` / `join` let the caller go on) may still be freeing its runtime
/// structures, which would blur an allocator bracket taken right away.
#[cfg(not(miri))]
pub fn settle_threads(baseline: usize, max_ms: u64) -> bool {
    wait_until(max_ms, || crate::procfs::tasks().len() <= baseline)
}

#[cfg(miri)]
pub fn settle_threads(_baseline: usize, _max_ms: u64) -> bool {
    true
}

/// Before the process exits: wait (at most ~2 s) until the reloader threads that are still
/// around (leaked `'static` caches, caches dropped a moment ago) have gone to sleep or away.
/// LeakSanitizer takes its snapshot at exit; a thread caught in the middle of growing one of
/// its tables at that instant was once reported as a leak (not reproducible in 3 re-runs).
#[cfg(not(miri))]
pub fn quiesce_reloaders() {
    let sample = || -> Vec<(i32, u64)> {
        crate::procfs::reloader_tasks()
            .into_iter()
            .map(|t| (t.tid, t.ticks + crate::procfs::voluntary_switches(t.tid).unwrap_or(0)))
            .collect()
    };
    let mut prev = sample();
    let mut stable = 0;
    for _ in 0..100 {
        std::thread::sleep(std::time::Duration::from_millis(20));
        let now = sample();
        if now == prev {
            stable += 1;
            if stable >= 3 {
                return;
            }
        } else {
            stable = 0;
        }
        prev = now;
    }
}

#[cfg(miri)]
pub fn quiesce_reloaders() {}

/// One step of a busy wait: a CPU pause, and every 128th call on a thread a `yield_now`, so that
/// spin barriers keep the racers tightly aligned on an idle machine and still make progress
/// when there are more runnable threads than cores (thorough tier: dozens of processes).
#[inline]
pub fn pause() {
    thread_local! { static N: std::cell::Cell<u32> = const { std::cell::Cell::new(0) }; }
    let n = N.with(|c| {
        let v = c.get().wrapping_add(1);
        c.set(v);
        v
    });
    if n % 128 == 0 || cfg!(miri) {
        std::thread::yield_now();
    } else {
        std::hint::spin_loop();
    }
}
