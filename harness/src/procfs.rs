//! `/proc/self/task` observer: thread existence, state letter, CPU ticks.

#[derive(Clone, Debug)]
pub struct Task {
    pub tid: i32,
    pub comm: String,
    pub state: char,
    /// utime + stime in clock ticks
    pub ticks: u64,
}

pub fn tasks() -> Vec<Task> {
    let mut out = vec![];
    let Ok(rd) = std::fs::read_dir("/proc/self/task") else {
        return out;
    };
    for e in rd.flatten() {
        let Some(tid) = e.file_name().to_str().and_then(|s| s.parse::<i32>().ok()) else {
            continue;
        };
        if let Some(t) = task(tid) {
            out.push(t);
        }
    }
    out.sort_by_key(|t| t.tid);
    out
}

pub fn task(tid: i32) -> Option<Task> {
    let stat = std::fs::read_to_string(format!("/proc/self/task/{tid}/stat")).ok()?;
    // pid (comm) state ppid ... ; comm may contain spaces / parens: use last ')'
    let lp = stat.find('(')?;
    let rp = stat.rfind(')')?;
    let comm = stat[lp + 1..rp].to_string();
    let rest: Vec<&str> = stat[rp + 1..].split_whitespace().collect();
    // rest[0] = state, rest[11] = utime (field 14), rest[12] = stime (field 15)
    let state = rest.first()?.chars().next()?;
    let utime: u64 = rest.get(11)?.parse().ok()?;
    let stime: u64 = rest.get(12)?.parse().ok()?;
    Some(Task {
        tid,
        comm,
        state,
        ticks: utime + stime,
    })
}

/// voluntary context switches of a thread (how often it went to sleep, i.e. woke up before).
pub fn voluntary_switches(tid: i32) -> Option<u64> {
    let st = std::fs::read_to_string(format!("/proc/self/task/{tid}/status")).ok()?;
    st.lines().find_map(|l| l.strip_prefix("voluntary_ctxt_switches:")).and_then(|v| v.trim().parse().ok())
}

pub fn gettid() -> i32 {
    unsafe { libc::syscall(libc::SYS_gettid) as i32 }
}

pub fn ticks_per_second() -> u64 {
    let v = unsafe { libc::sysconf(libc::_SC_CLK_TCK) };
    if v <= 0 {
        100
    } else {
        v as u64
    }
}

/// Threads whose name starts with `assets_hot_relo` (comm is truncated to 15 bytes).
pub fn reloader_tasks() -> Vec<Task> {
    tasks()
        .into_iter()
        .filter(|t| t.comm.starts_with("assets_hot_relo"))
        .collect()
}
