//! Lock-step execution layer: real caches (every front-end) next to the model.

use crate::assets::*;
use crate::mem::Mem;
use crate::model::Stop;
use assets_manager::asset::Storable;
use assets_manager::{AnyCache, AssetCache, Compound, Handle, LocalAssetCache, ReloadId};
use std::panic::{catch_unwind, AssertUnwindSafe};

/// Numeric value of a `ReloadId`, read from its `Debug` form (`ReloadId(3)`).
pub fn rid_num(id: ReloadId) -> u64 {
    let s = format!("{id:?}");
    let digits: String = s.chars().filter(|c| c.is_ascii_digit()).collect();
    digits.parse().unwrap_or(u64::MAX)
}

#[derive(Clone, Debug, PartialEq, Eq)]
pub struct HandleObs {
    pub v: V,
    pub token: Option<usize>,
    /// address of the `Handle` (pointer identity)
    pub addr: usize,
    pub rid: u64,
    pub id: String,
}

pub fn observe<T: Storable + Describe>(h: &Handle<T>) -> HandleObs {
    let g = h.read();
    HandleObs {
        v: g.describe(),
        token: g.token_serial(),
        addr: h as *const Handle<T> as usize,
        rid: rid_num(h.last_reload_id()),
        id: h.id().to_string(),
    }
}

#[derive(Clone, Copy, Debug, PartialEq, Eq, Hash, PartialOrd, Ord)]
pub enum Fe {
    /// the cache's own inherent methods
    Direct,
    /// through `as_any_cache()`
    Any,
}

pub enum RealCache {
    Shared(AssetCache<Mem>),
    /// leaked for `enhance_hot_reloading`
    Static(&'static AssetCache<Mem>),
    Local(LocalAssetCache<Mem>),
}

/// Outcome of a real API call that may fail or panic.
#[derive(Clone, Debug, PartialEq, Eq)]
pub enum Outcome<T> {
    Ok(T),
    Err(E),
    Panic(String),
}

impl<T> Outcome<T> {
    pub fn ok(self) -> Option<T> {
        match self {
            Outcome::Ok(t) => Some(t),
            _ => None,
        }
    }
}

fn guard<T>(f: impl FnOnce() -> Result<T, assets_manager::Error>) -> Outcome<T> {
    match catch_unwind(AssertUnwindSafe(f)) {
        Ok(Ok(t)) => Outcome::Ok(t),
        Ok(Err(e)) => Outcome::Err(describe_error(&e)),
        Err(p) => Outcome::Panic(crate::util::panic_message(&*p)),
    }
}

macro_rules! front {
    ($self:expr, $fe:expr, |$c:ident| $direct:expr, |$a:ident| $any:expr) => {
        match ($self, $fe) {
            (RealCache::Shared($c), Fe::Direct) => $direct,
            (RealCache::Static($c), Fe::Direct) => $direct,
            (RealCache::Local($c), Fe::Direct) => $direct,
            (RealCache::Shared(c), Fe::Any) => {
                let $a = c.as_any_cache();
                $any
            }
            (RealCache::Static(c), Fe::Any) => {
                let $a = c.as_any_cache();
                $any
            }
            (RealCache::Local(c), Fe::Any) => {
                let $a = c.as_any_cache();
                $any
            }
        }
    };
}

impl RealCache {
    pub fn shared(&self) -> Option<&AssetCache<Mem>> {
        match self {
            RealCache::Shared(c) => Some(c),
            RealCache::Static(c) => Some(c),
            RealCache::Local(_) => None,
        }
    }

    pub fn any(&self) -> AnyCache<'_> {
        match self {
            RealCache::Shared(c) => c.as_any_cache(),
            RealCache::Static(c) => c.as_any_cache(),
            RealCache::Local(c) => c.as_any_cache(),
        }
    }

    pub fn is_hot(&self) -> bool {
        self.any().is_hot_reloaded()
    }

    pub fn load(&self, fe: Fe, ty: Ty, id: &str) -> Outcome<HandleObs> {
        fn go<T: Compound + Describe>(rc: &RealCache, fe: Fe, id: &str) -> Outcome<HandleObs> {
            guard(|| {
                Ok(observe(front!(rc, fe, |c| c.load::<T>(id)?, |a| a.load::<T>(id)?)))
            })
        }
        crate::with_compound!(ty, T => go::<T>(self, fe, id), else panic!("vh: load of storable-only type"))
    }

    pub fn load_expect(&self, fe: Fe, ty: Ty, id: &str) -> Outcome<HandleObs> {
        fn go<T: Compound + Describe>(rc: &RealCache, fe: Fe, id: &str) -> Outcome<HandleObs> {
            guard(|| {
                Ok(observe(front!(rc, fe, |c| c.load_expect::<T>(id), |a| a.load_expect::<T>(id))))
            })
        }
        crate::with_compound!(ty, T => go::<T>(self, fe, id), else panic!("vh: load of storable-only type"))
    }

    pub fn load_owned(&self, fe: Fe, ty: Ty, id: &str) -> Outcome<(V, Option<usize>)> {
        fn go<T: Compound + Describe>(rc: &RealCache, fe: Fe, id: &str) -> Outcome<(V, Option<usize>)> {
            guard(|| {
                let v: T = front!(rc, fe, |c| c.load_owned::<T>(id)?, |a| a.load_owned::<T>(id)?);
                Ok((v.describe(), v.token_serial()))
            })
        }
        crate::with_compound!(ty, T => go::<T>(self, fe, id), else panic!("vh: load of storable-only type"))
    }

    pub fn get_cached(&self, fe: Fe, ty: Ty, id: &str) -> Outcome<Option<HandleObs>> {
        fn go<T: Storable + Describe>(rc: &RealCache, fe: Fe, id: &str) -> Outcome<Option<HandleObs>> {
            guard(|| {
                Ok(front!(rc, fe, |c| c.get_cached::<T>(id), |a| a.get_cached::<T>(id)).map(observe))
            })
        }
        crate::with_storable!(ty, T => go::<T>(self, fe, id))
    }

    pub fn get_or_insert(&self, fe: Fe, ty: Ty, id: &str, n: u64) -> Outcome<(HandleObs, Option<usize>)> {
        fn go<T: Storable + Describe + FromN>(
            rc: &RealCache,
            fe: Fe,
            id: &str,
            n: u64,
        ) -> Outcome<(HandleObs, Option<usize>)> {
            guard(|| {
                let val = T::from_n(n);
                let offered = val.token_serial();
                let h = front!(rc, fe, |c| c.get_or_insert::<T>(id, val), |a| a.get_or_insert::<T>(id, val));
                Ok((observe(h), offered))
            })
        }
        match ty {
            // only types with a `FromN` constructor
            Ty::Leaf { .. } | Ty::Big | Ty::Node(_) | Ty::Stored(_) => {}
            other => panic!("vh: get_or_insert unsupported for {other:?}"),
        }
        macro_rules! arm {
            ($T:ty) => {
                go::<$T>(self, fe, id, n)
            };
        }
        match ty {
            Ty::Leaf { e: 1, d: 0, h: true } => arm!(Leaf<1, 0, true>),
            Ty::Leaf { e: 1, d: 0, h: false } => arm!(Leaf<1, 0, false>),
            Ty::Leaf { e: 3, d: 0, h: true } => arm!(Leaf<3, 0, true>),
            Ty::Leaf { e: 1, d: 1, h: true } => arm!(Leaf<1, 1, true>),
            Ty::Leaf { e: 0, d: 0, h: true } => arm!(Leaf<0, 0, true>),
            Ty::Leaf { e: 2, d: 0, h: true } => arm!(Leaf<2, 0, true>),
            Ty::Big => arm!(Big),
            Ty::Node(0) => arm!(Node<0>),
            Ty::Node(1) => arm!(Node<1>),
            Ty::Stored(0) => arm!(PTok),
            Ty::Stored(1) => arm!(PAlign),
            Ty::Stored(2) => arm!(PZst),
            Ty::Stored(3) => arm!(u8),
            other => panic!("vh: get_or_insert unsupported for {other:?}"),
        }
    }

    /// The untyped handle of a cached entry (no recording at top level).
    pub fn untyped(&self, ty: Ty, id: &str) -> Option<&assets_manager::UntypedHandle> {
        fn go<'a, T: Storable>(rc: &'a RealCache, id: &str) -> Option<&'a assets_manager::UntypedHandle> {
            let a = rc.any();
            a.get_cached::<T>(id).map(|h| h.as_untyped())
        }
        crate::with_storable!(ty, T => go::<T>(self, id))
    }

    /// `Handle::get()` for the types that implement `NotHotReloaded`:
    /// (address of the value, description).
    pub fn get_ref(&self, ty: Ty, id: &str) -> Option<Outcome<(usize, V)>> {
        fn go<T: Storable + assets_manager::asset::NotHotReloaded + Describe>(
            rc: &RealCache,
            id: &str,
        ) -> Option<Outcome<(usize, V)>> {
            let a = rc.any();
            let h = a.get_cached::<T>(id)?;
            Some(guard(|| {
                let r: &T = h.get();
                Ok((r as *const T as usize, r.describe()))
            }))
        }
        match ty {
            Ty::Leaf { e: 1, d: 0, h: false } => go::<Leaf<1, 0, false>>(self, id),
            Ty::Stored(0) => go::<PTok>(self, id),
            Ty::Stored(1) => go::<PAlign>(self, id),
            Ty::Stored(3) => go::<u8>(self, id),
            _ => None,
        }
    }

    pub fn contains(&self, fe: Fe, ty: Ty, id: &str) -> Outcome<bool> {
        fn go<T: Storable>(rc: &RealCache, fe: Fe, id: &str) -> Outcome<bool> {
            guard(|| Ok(front!(rc, fe, |c| c.contains::<T>(id), |a| a.contains::<T>(id))))
        }
        crate::with_storable!(ty, T => go::<T>(self, fe, id))
    }

    pub fn remove(&mut self, ty: Ty, id: &str) -> Outcome<bool> {
        fn go<T: Storable>(rc: &mut RealCache, id: &str) -> Outcome<bool> {
            guard(|| {
                Ok(match rc {
                    RealCache::Shared(c) => c.remove::<T>(id),
                    RealCache::Local(c) => c.remove::<T>(id),
                    RealCache::Static(_) => panic!("vh: remove on a leaked cache"),
                })
            })
        }
        crate::with_storable!(ty, T => go::<T>(self, id))
    }

    pub fn take(&mut self, ty: Ty, id: &str) -> Outcome<Option<(V, Option<usize>)>> {
        fn go<T: Storable + Describe>(rc: &mut RealCache, id: &str) -> Outcome<Option<(V, Option<usize>)>> {
            guard(|| {
                let t: Option<T> = match rc {
                    RealCache::Shared(c) => c.take::<T>(id),
                    RealCache::Local(c) => c.take::<T>(id),
                    RealCache::Static(_) => panic!("vh: take on a leaked cache"),
                };
                Ok(t.map(|v| (v.describe(), v.token_serial())))
            })
        }
        crate::with_storable!(ty, T => go::<T>(self, id))
    }

    pub fn clear(&mut self) {
        match self {
            RealCache::Shared(c) => c.clear(),
            RealCache::Local(c) => c.clear(),
            RealCache::Static(_) => panic!("vh: clear on a leaked cache"),
        }
    }

    /// Sends nothing; waits until every notification sent through `mem` so far
    /// has been handled by the reloader thread.  `false` = watchdog expired.
    pub fn barrier(&self, mem: &Mem) -> bool {
        let Some(c) = self.shared() else {
            return true;
        };
        let sent = mem.sent();
        let max = if cfg!(miri) { 600_000 } else { 120_000 };
        crate::util::wait_until(max, || match c.verif_events_handled() {
            Some(n) => n >= sent,
            None => true,
        })
    }

    pub fn hot_reload(&self) {
        if let Some(c) = self.shared() {
            c.hot_reload();
        }
    }
}

/// Expected outcome from a model call.
pub fn expect_outcome<T>(r: Result<T, Stop>) -> Outcome<T> {
    match r {
        Ok(t) => Outcome::Ok(t),
        Err(Stop::Err(e)) => Outcome::Err(e),
        Err(Stop::Panic) => Outcome::Panic(String::new()),
    }
}

/// Compares an observed error with the model's: same id chain and same class,
/// where for I/O classes only "I/O error, not NotFound" is compared unless the
/// kinds are equal (the property ranks classes, it does not say which of two
/// same-class errors survives).
pub fn same_error(obs: &E, exp: &E) -> bool {
    if obs.id != exp.id {
        return false;
    }
    match (&obs.class, &exp.class) {
        (ErrClass::Nested(a), ErrClass::Nested(b)) => same_error(a, b),
        (ErrClass::Io(_), ErrClass::Io(_)) => true,
        (a, b) => a == b,
    }
}
