//! Harness asset vocabulary: a fixed set of Rust types whose behaviour is
//! data-driven, so that one binary can express arbitrary dependency graphs.
//!
//! * `Leaf<EX, D, H>`: `Asset` with extension list `E`, `default_value`
//!   behaviour `D`, hot-reloaded iff `H`;
//! * `Big`: 4 KiB self-checking value (torn-read detection);
//! * `Node<K>`: `Compound` interpreting the recipe file `<id>.n<K>`;
//! * `Arc<Node<0>>`, `Directory<_>`, `RecursiveDirectory<_>`, `OnceInitCell<_, _>`;
//! * `Storable`-only payloads of different shapes.
//!
//! Every value can `describe()` itself as a plain-data `V`, which is what the
//! reference model predicts.

use crate::ledger::Token;
use crate::mem::{self, Mem};
use assets_manager::asset::{DirLoadable, NotHotReloaded, Storable};
use assets_manager::loader::Loader;
use assets_manager::source::{DirEntry, Source};
use assets_manager::{
    AnyCache, Asset, AssetCache, BoxedError, Compound, Directory, OnceInitCell, RecursiveDirectory,
    SharedString,
};
use std::borrow::Cow;
use std::collections::HashMap;
use std::fmt;
use std::io;
use std::sync::atomic::{AtomicPtr, AtomicU64, AtomicUsize, Ordering::SeqCst};
use std::sync::{Arc, Condvar, Mutex, MutexGuard};

fn lock<T>(m: &Mutex<T>) -> MutexGuard<'_, T> {
    m.lock().unwrap_or_else(|e| e.into_inner())
}

// ---------------------------------------------------------------------------
// Plain-data descriptions
// ---------------------------------------------------------------------------

#[derive(Clone, Debug, PartialEq, Eq, Hash, PartialOrd, Ord)]
pub enum ErrClass {
    /// the loader rejected the bytes
    Conversion,
    /// I/O error other than NotFound
    Io(String),
    NotFound,
    /// "the asset has neither extension nor default value"
    NoDefault,
    /// `default_value` returned its own error
    DefaultRefused,
    /// the recipe executed `fail`
    RecipeFail,
    /// the recipe text could not be parsed
    RecipeSyntax,
    /// injected loader error (Node loaders)
    Injected,
    /// the reason is another `assets_manager::Error`
    Nested(Box<E>),
    Other(String),
}

/// Description of an `assets_manager::Error`.
#[derive(Clone, Debug, PartialEq, Eq, Hash, PartialOrd, Ord)]
pub struct E {
    pub id: String,
    pub class: ErrClass,
}

#[derive(Clone, Debug, PartialEq, Eq, Hash, PartialOrd, Ord)]
pub enum V {
    Leaf { ext: String, len: usize, hash: u64 },
    LeafDefault,
    Big(u64),
    Node(Vec<V>),
    Ids(Vec<String>),
    Cell { seed: Box<V>, init: Option<u64> },
    Stored(u64),
    // results of recipe operations
    Read(Result<(usize, u64), String>),
    Entries(Result<Vec<String>, String>),
    Res(Result<Box<V>, E>),
    Opt(Option<Box<V>>),
    Bool(bool),
    Caught(Option<Vec<V>>),
    Sub(Vec<V>),
}

pub fn io_kind_name(k: io::ErrorKind) -> String {
    format!("{k:?}")
}

#[derive(Debug)]
pub struct DecodeError;
impl fmt::Display for DecodeError {
    fn fmt(&self, f: &mut fmt::Formatter<'_>) -> fmt::Result {
        f.write_str("vh: undecodable content")
    }
}
impl std::error::Error for DecodeError {}

#[derive(Debug)]
pub struct DefaultRefused;
impl fmt::Display for DefaultRefused {
    fn fmt(&self, f: &mut fmt::Formatter<'_>) -> fmt::Result {
        f.write_str("vh: default_value refused")
    }
}
impl std::error::Error for DefaultRefused {}

#[derive(Debug)]
pub struct RecipeFail;
impl fmt::Display for RecipeFail {
    fn fmt(&self, f: &mut fmt::Formatter<'_>) -> fmt::Result {
        f.write_str("vh: recipe failed")
    }
}
impl std::error::Error for RecipeFail {}

#[derive(Debug)]
pub struct RecipeSyntax(pub String);
impl fmt::Display for RecipeSyntax {
    fn fmt(&self, f: &mut fmt::Formatter<'_>) -> fmt::Result {
        write!(f, "vh: recipe syntax: {}", self.0)
    }
}
impl std::error::Error for RecipeSyntax {}

#[derive(Debug)]
pub struct InjectedLoaderError;
impl fmt::Display for InjectedLoaderError {
    fn fmt(&self, f: &mut fmt::Formatter<'_>) -> fmt::Result {
        f.write_str("vh: injected loader error")
    }
}
impl std::error::Error for InjectedLoaderError {}

/// Message of the `io::Error` (kind NotFound, the least favourable one) that `LeafLoader`
/// returns for contents starting with "!io".
pub const DECODE_IO_MSG: &str = "vh: decoding error reported as io::Error";

pub fn describe_reason(r: &(dyn std::error::Error + 'static)) -> ErrClass {
    if let Some(e) = r.downcast_ref::<assets_manager::Error>() {
        return ErrClass::Nested(Box::new(describe_error(e)));
    }
    if let Some(e) = r.downcast_ref::<io::Error>() {
        // a loader may report a decoding problem as an `io::Error` (`read_exact` on truncated
        // bytes...): that is still a decoding error, not a failure to read the source
        if e.get_ref().is_some_and(|inner| inner.to_string() == DECODE_IO_MSG) {
            return ErrClass::Conversion;
        }
        return if e.kind() == io::ErrorKind::NotFound {
            ErrClass::NotFound
        } else {
            ErrClass::Io(io_kind_name(e.kind()))
        };
    }
    if r.is::<DecodeError>() {
        return ErrClass::Conversion;
    }
    if r.is::<DefaultRefused>() {
        return ErrClass::DefaultRefused;
    }
    if r.is::<RecipeFail>() {
        return ErrClass::RecipeFail;
    }
    if r.is::<RecipeSyntax>() {
        return ErrClass::RecipeSyntax;
    }
    if r.is::<InjectedLoaderError>() {
        return ErrClass::Injected;
    }
    let s = r.to_string();
    if s == "the asset has neither extension nor default value" {
        return ErrClass::NoDefault;
    }
    ErrClass::Other(s)
}

pub fn describe_error(e: &assets_manager::Error) -> E {
    E {
        id: e.id().to_string(),
        class: describe_reason(e.reason()),
    }
}

// ---------------------------------------------------------------------------
// Type universe
// ---------------------------------------------------------------------------

#[derive(Clone, Copy, Debug, PartialEq, Eq, Hash, PartialOrd, Ord)]
pub enum Elem {
    /// `Leaf<1,0,true>` (extension "a")
    LeafA,
    /// `Leaf<3,0,true>` (extensions "m1", "", "m3")
    LeafM,
    /// `Node<0>` (hand-written `DirLoadable`, extension "n0")
    Node0,
    /// `Arc<Leaf<1,0,true>>`
    ArcLeafA,
}

#[derive(Clone, Copy, Debug, PartialEq, Eq, Hash, PartialOrd, Ord)]
pub enum Ty {
    Leaf { e: u8, d: u8, h: bool },
    Big,
    Node(u8),
    ArcNode,
    /// `Arc<Leaf<1,0,true>>`
    ArcLeafA,
    Dir(Elem),
    RecDir(Elem),
    Cell,
    /// storable-only payloads: 0 = heap-owning + token, 1 = align(64) + token,
    /// 2 = zero-sized (global drop counter), 3 = `u8`
    Stored(u8),
}

pub const LEAF_A: Ty = Ty::Leaf { e: 1, d: 0, h: true };
pub const LEAF_M: Ty = Ty::Leaf { e: 3, d: 0, h: true };
pub const LEAF_D: Ty = Ty::Leaf { e: 1, d: 1, h: true };
pub const LEAF_E: Ty = Ty::Leaf { e: 0, d: 0, h: true };
pub const LEAF_S: Ty = Ty::Leaf { e: 1, d: 0, h: false };
pub const LEAF_2: Ty = Ty::Leaf { e: 2, d: 0, h: true };

pub const fn exts(e: u8) -> &'static [&'static str] {
    match e {
        0 => &[],
        1 => &["a"],
        2 => &["p", "q"],
        _ => &["m1", "", "m3"],
    }
}

impl Elem {
    pub fn exts(self) -> &'static [&'static str] {
        match self {
            Elem::LeafA | Elem::ArcLeafA => exts(1),
            Elem::LeafM => exts(3),
            Elem::Node0 => &["n0"],
        }
    }
    pub fn ty(self) -> Ty {
        match self {
            Elem::LeafA => LEAF_A,
            Elem::LeafM => LEAF_M,
            Elem::Node0 => Ty::Node(0),
            Elem::ArcLeafA => Ty::ArcLeafA,
        }
    }
    pub fn tag(self) -> &'static str {
        match self {
            Elem::LeafA => "a",
            Elem::LeafM => "m",
            Elem::Node0 => "n",
            Elem::ArcLeafA => "ra",
        }
    }
    pub fn parse(s: &str) -> Option<Elem> {
        Some(match s {
            "a" => Elem::LeafA,
            "m" => Elem::LeafM,
            "n" => Elem::Node0,
            "ra" => Elem::ArcLeafA,
            _ => return None,
        })
    }
}

impl Ty {
    /// Whether values of this type are hot-reloaded (type-level switch).
    pub fn hot(self) -> bool {
        match self {
            Ty::Leaf { h, .. } => h,
            Ty::Stored(_) => false,
            _ => true,
        }
    }

    pub fn is_compound(self) -> bool {
        !matches!(self, Ty::Stored(_))
    }

    pub fn tag(self) -> String {
        match self {
            Ty::Leaf { e, d, h } => format!("L{e}{d}{}", if h { 't' } else { 'f' }),
            Ty::Big => "B".into(),
            Ty::Node(k) => format!("N{k}"),
            Ty::ArcNode => "AN".into(),
            Ty::ArcLeafA => "AL".into(),
            Ty::Dir(el) => format!("D:{}", el.tag()),
            Ty::RecDir(el) => format!("R:{}", el.tag()),
            Ty::Cell => "C".into(),
            Ty::Stored(k) => format!("S{k}"),
        }
    }

    pub fn parse(s: &str) -> Option<Ty> {
        let b = s.as_bytes();
        Some(match b.first()? {
            b'L' if b.len() == 4 => {
                let e = b[1].checked_sub(b'0')?;
                let d = b[2].checked_sub(b'0')?;
                if e > 3 || d > 2 {
                    return None;
                }
                let h = match b[3] {
                    b't' => true,
                    b'f' => false,
                    _ => return None,
                };
                Ty::Leaf { e, d, h }
            }
            b'B' if b.len() == 1 => Ty::Big,
            b'N' if b.len() == 2 => {
                let k = b[1].checked_sub(b'0')?;
                if k > 1 {
                    return None;
                }
                Ty::Node(k)
            }
            b'A' if s == "AN" => Ty::ArcNode,
            b'A' if s == "AL" => Ty::ArcLeafA,
            b'D' if b.len() > 2 && b[1] == b':' => Ty::Dir(Elem::parse(&s[2..])?),
            b'R' if b.len() > 2 && b[1] == b':' => Ty::RecDir(Elem::parse(&s[2..])?),
            b'C' if b.len() == 1 => Ty::Cell,
            b'S' if b.len() == 2 => {
                let k = b[1].checked_sub(b'0')?;
                if k > 3 {
                    return None;
                }
                Ty::Stored(k)
            }
            _ => return None,
        })
    }
}

// ---------------------------------------------------------------------------
// Global harness context (one scenario at a time per process)
// ---------------------------------------------------------------------------

#[derive(Clone, Debug)]
pub struct LoadEv {
    pub start: u64,
    pub end: u64,
    pub thread: u32,
    pub reloader: bool,
    pub ty: String,
    /// id for compound loaders, content hash (hex) for leaf loaders
    pub key: String,
    pub occ: usize,
    /// "ok", "err", "injected-err", "panic"
    pub outcome: &'static str,
    /// loaders in flight (including this one) when this one started
    pub in_flight: usize,
}

#[derive(Clone, Copy, Debug, PartialEq, Eq)]
pub enum LoaderFault {
    Err,
    Panic,
}

#[derive(Default)]
pub struct LoaderFaults {
    /// (type tag, key, occurrence) -> fault
    pub rules: Vec<((String, String, usize), LoaderFault)>,
    /// n-th loader invocation overall -> fault
    pub nth_rules: Vec<(usize, LoaderFault)>,
    pub counts: HashMap<(String, String), usize>,
    pub nth: usize,
    pub fired: Vec<(String, String, usize, LoaderFault)>,
}

pub struct Rv {
    state: Mutex<(usize, u64)>,
    cv: Condvar,
}

pub struct Ctx {
    pub loader_log: Mutex<Vec<LoadEv>>,
    pub log_on: std::sync::atomic::AtomicBool,
    pub faults: Mutex<LoaderFaults>,
    pub registry: [AtomicPtr<AssetCache<Mem>>; 4],
    rendezvous: Mutex<HashMap<String, Arc<Rv>>>,
    pub rv_met: AtomicU64,
    pub rv_timeouts: AtomicU64,
    pub rv_wait_ms: AtomicU64,
    /// spin iterations inside every loader (widens race windows)
    pub loader_spin: AtomicU64,
    pub in_flight: AtomicUsize,
    pub max_in_flight: AtomicUsize,
    pub zst_live: std::sync::atomic::AtomicI64,
    pub zst_created: AtomicU64,
    /// counter used by cell initialisers
    pub cell_inits: AtomicU64,
}

pub static CTX: std::sync::LazyLock<Ctx> = std::sync::LazyLock::new(|| Ctx {
    loader_log: Mutex::new(Vec::new()),
    log_on: std::sync::atomic::AtomicBool::new(true),
    faults: Mutex::new(LoaderFaults::default()),
    registry: std::array::from_fn(|_| AtomicPtr::new(std::ptr::null_mut())),
    rendezvous: Mutex::new(HashMap::new()),
    rv_met: AtomicU64::new(0),
    rv_timeouts: AtomicU64::new(0),
    rv_wait_ms: AtomicU64::new(2000),
    loader_spin: AtomicU64::new(0),
    in_flight: AtomicUsize::new(0),
    max_in_flight: AtomicUsize::new(0),
    zst_live: std::sync::atomic::AtomicI64::new(0),
    zst_created: AtomicU64::new(0),
    cell_inits: AtomicU64::new(0),
});

impl Ctx {
    pub fn reset(&self) {
        lock(&self.loader_log).clear();
        let mut f = lock(&self.faults);
        f.rules.clear();
        f.nth_rules.clear();
        f.counts.clear();
        f.nth = 0;
        f.fired.clear();
        drop(f);
        lock(&self.rendezvous).clear();
        self.loader_spin.store(0, SeqCst);
        self.max_in_flight.store(0, SeqCst);
    }

    /// Releases every allocation held by the harness context (used before
    /// allocator-ledger snapshots so that the bracket only sees the crate).
    pub fn release_memory(&self) {
        *lock(&self.loader_log) = Vec::new();
        let mut f = lock(&self.faults);
        *f = LoaderFaults::default();
        drop(f);
        *lock(&self.rendezvous) = HashMap::new();
    }

    pub fn take_loader_log(&self) -> Vec<LoadEv> {
        std::mem::take(&mut *lock(&self.loader_log))
    }

    pub fn reset_fault_counters(&self) {
        let mut f = lock(&self.faults);
        f.counts.clear();
        f.nth = 0;
    }

    pub fn add_loader_fault(&self, ty: &str, key: &str, occ: usize, fault: LoaderFault) {
        lock(&self.faults)
            .rules
            .push(((ty.to_string(), key.to_string(), occ), fault));
    }

    pub fn add_nth_loader_fault(&self, n: usize, fault: LoaderFault) {
        lock(&self.faults).nth_rules.push((n, fault));
    }

    pub fn clear_loader_faults(&self) {
        let mut f = lock(&self.faults);
        f.rules.clear();
        f.nth_rules.clear();
    }

    pub fn take_fired(&self) -> Vec<(String, String, usize, LoaderFault)> {
        std::mem::take(&mut lock(&self.faults).fired)
    }

    pub fn loader_invocations(&self) -> usize {
        lock(&self.faults).nth
    }

    pub fn register_cache(&self, slot: usize, cache: &AssetCache<Mem>) {
        self.registry[slot].store(cache as *const _ as *mut _, SeqCst);
    }

    pub fn unregister_cache(&self, slot: usize) {
        self.registry[slot].store(std::ptr::null_mut(), SeqCst);
    }

    /// # Safety
    /// The scenario that registered the cache guarantees it outlives every
    /// loader invocation that can look it up.
    pub unsafe fn cache(&self, slot: usize) -> Option<&AssetCache<Mem>> {
        self.registry.get(slot)?.load(SeqCst).as_ref()
    }

    /// Meets `parties` threads at barrier `name`; bounded wait.  Returns how
    /// many had arrived when this thread left.
    pub fn rendezvous(&self, name: &str, parties: usize) -> usize {
        let rv = lock(&self.rendezvous)
            .entry(name.to_string())
            .or_insert_with(|| {
                Arc::new(Rv {
                    state: Mutex::new((0, 0)),
                    cv: Condvar::new(),
                })
            })
            .clone();
        let mut g = lock(&rv.state);
        g.0 += 1;
        if g.0 >= parties {
            self.rv_met.fetch_add(1, SeqCst);
            rv.cv.notify_all();
            return g.0;
        }
        let deadline = std::time::Instant::now()
            + std::time::Duration::from_millis(self.rv_wait_ms.load(SeqCst));
        loop {
            let now = std::time::Instant::now();
            if g.0 >= parties {
                return g.0;
            }
            if now >= deadline {
                self.rv_timeouts.fetch_add(1, SeqCst);
                return g.0;
            }
            let (ng, _) = rv
                .cv
                .wait_timeout(g, deadline - now)
                .unwrap_or_else(|e| e.into_inner());
            g = ng;
        }
    }
}

/// Runs at the start of every loader: logging, concurrency measurement,
/// delay, fault injection.  Returns a guard that logs the end.
pub struct LoaderScope {
    ev: LoadEv,
    done: bool,
}

impl LoaderScope {
    pub fn enter(ty: &str, key: &str) -> Result<LoaderScope, LoaderFault> {
        let inflight = CTX.in_flight.fetch_add(1, SeqCst) + 1;
        CTX.max_in_flight.fetch_max(inflight, SeqCst);
        let (occ, fault) = {
            let mut f = lock(&CTX.faults);
            let n = f.nth;
            f.nth += 1;
            let c = f.counts.entry((ty.to_string(), key.to_string())).or_insert(0);
            let occ = *c;
            *c += 1;
            let mut fault = f
                .rules
                .iter()
                .find(|((t, k, o), _)| t == ty && k == key && (*o == occ || *o == usize::MAX))
                .map(|(_, fl)| *fl);
            if fault.is_none() {
                fault = f.nth_rules.iter().find(|(k, _)| *k == n).map(|(_, fl)| *fl);
            }
            if let Some(fl) = fault {
                f.fired.push((ty.to_string(), key.to_string(), occ, fl));
            }
            (occ, fault)
        };
        let mut scope = LoaderScope {
            ev: LoadEv {
                start: mem::tick(),
                end: 0,
                thread: mem::thread_no(),
                reloader: mem::on_reloader_thread(),
                ty: ty.to_string(),
                key: key.to_string(),
                occ,
                outcome: "panic",
                in_flight: inflight,
            },
            done: false,
        };
        let spin = CTX.loader_spin.load(SeqCst);
        if spin > 0 {
            crate::util::spin(spin);
            std::thread::yield_now();
        }
        match fault {
            Some(LoaderFault::Err) => {
                scope.finish("injected-err");
                Err(LoaderFault::Err)
            }
            Some(LoaderFault::Panic) => {
                scope.finish("panic");
                panic!("vh: injected loader panic ({ty} {key} #{occ})");
            }
            None => Ok(scope),
        }
    }

    pub fn finish(&mut self, outcome: &'static str) {
        if !self.done {
            self.done = true;
            self.ev.outcome = outcome;
            self.ev.end = mem::tick();
            CTX.in_flight.fetch_sub(1, SeqCst);
            if CTX.log_on.load(SeqCst) {
                lock(&CTX.loader_log).push(self.ev.clone());
            }
        }
    }
}

impl Drop for LoaderScope {
    fn drop(&mut self) {
        // reached without `finish` only when unwinding
        self.finish("panic");
    }
}

// ---------------------------------------------------------------------------
// Describe
// ---------------------------------------------------------------------------

pub trait Describe {
    fn describe(&self) -> V;
    /// serial of the token owned by this value, if it owns one
    fn token_serial(&self) -> Option<usize> {
        None
    }
}

// ---------------------------------------------------------------------------
// Leaf<EX, D, H>
// ---------------------------------------------------------------------------

pub struct Leaf<const EX: u8, const D: u8, const H: bool> {
    pub token: Token,
    pub v: V,
}

pub struct LeafLoader;

pub fn content_hash(b: &[u8]) -> u64 {
    crate::rng::fnv(b)
}

impl<const EX: u8, const D: u8, const H: bool> Loader<Leaf<EX, D, H>> for LeafLoader {
    fn load(content: Cow<[u8]>, ext: &str) -> Result<Leaf<EX, D, H>, BoxedError> {
        let hash = content_hash(&content);
        let tag = Ty::Leaf { e: EX, d: D, h: H }.tag();
        let mut scope = match LoaderScope::enter(&tag, &format!("{hash:016x}")) {
            Ok(s) => s,
            Err(_) => return Err(Box::new(DecodeError)),
        };
        if content.first() == Some(&b'!') {
            scope.finish("err");
            if content.starts_with(b"!io") {
                return Err(Box::new(io::Error::new(io::ErrorKind::NotFound, DECODE_IO_MSG)));
            }
            return Err(Box::new(DecodeError));
        }
        scope.finish("ok");
        Ok(Leaf {
            token: Token::new(),
            v: V::Leaf {
                ext: ext.to_string(),
                len: content.len(),
                hash,
            },
        })
    }
}

impl<const EX: u8, const D: u8, const H: bool> Asset for Leaf<EX, D, H> {
    const EXTENSIONS: &'static [&'static str] = exts(EX);
    type Loader = LeafLoader;
    const HOT_RELOADED: bool = H;

    fn default_value(_id: &SharedString, error: BoxedError) -> Result<Self, BoxedError> {
        match D {
            0 => Err(error),
            1 => Ok(Leaf {
                token: Token::new(),
                v: V::LeafDefault,
            }),
            _ => Err(Box::new(DefaultRefused)),
        }
    }
}

impl<const EX: u8, const D: u8> NotHotReloaded for Leaf<EX, D, false> {}

impl<const EX: u8, const D: u8, const H: bool> Describe for Leaf<EX, D, H> {
    fn describe(&self) -> V {
        self.v.clone()
    }
    fn token_serial(&self) -> Option<usize> {
        Some(self.token.serial())
    }
}

// ---------------------------------------------------------------------------
// Big: 4 KiB inline, all words equal + checksum
// ---------------------------------------------------------------------------

pub const BIG_WORDS: usize = 511;

pub struct Big {
    pub words: [u64; BIG_WORDS],
    pub sum: u64,
    pub token: Token,
}

impl Big {
    pub fn new(gen: u64) -> Big {
        Big {
            words: [gen; BIG_WORDS],
            sum: gen.wrapping_mul(BIG_WORDS as u64),
            token: Token::new(),
        }
    }

    /// `Ok(generation)` if the value is internally consistent.
    pub fn check(&self) -> Result<u64, String> {
        let g = self.words[0];
        let mut sum = 0u64;
        for (i, w) in self.words.iter().enumerate() {
            if *w != g {
                return Err(format!("word {i} = {w} but word 0 = {g}"));
            }
            sum = sum.wrapping_add(*w);
        }
        if sum != self.sum {
            return Err(format!("checksum {} != {}", sum, self.sum));
        }
        if !self.token.is_live() {
            return Err(format!("token {} not live", self.token.serial()));
        }
        Ok(g)
    }
}

pub struct BigLoader;

impl Loader<Big> for BigLoader {
    fn load(content: Cow<[u8]>, _ext: &str) -> Result<Big, BoxedError> {
        let hash = content_hash(&content);
        let mut scope = match LoaderScope::enter("B", &format!("{hash:016x}")) {
            Ok(s) => s,
            Err(_) => return Err(Box::new(DecodeError)),
        };
        let s = std::str::from_utf8(&content).map_err(|_| DecodeError);
        let gen = s.and_then(|s| s.trim().parse::<u64>().map_err(|_| DecodeError));
        match gen {
            Ok(g) => {
                scope.finish("ok");
                Ok(Big::new(g))
            }
            Err(e) => {
                scope.finish("err");
                Err(Box::new(e))
            }
        }
    }
}

impl Asset for Big {
    const EXTENSION: &'static str = "big";
    type Loader = BigLoader;
}

impl Describe for Big {
    fn describe(&self) -> V {
        V::Big(self.words[0])
    }
    fn token_serial(&self) -> Option<usize> {
        Some(self.token.serial())
    }
}

// ---------------------------------------------------------------------------
// Recipes
// ---------------------------------------------------------------------------

#[derive(Clone, Debug, PartialEq, Eq, Hash)]
pub enum Op {
    File { id: String, ext: String },
    ReadDir { id: String },
    /// `cache.load::<T>(id)?` — error propagates
    Load { ty: Ty, id: String },
    /// `cache.load::<T>(id)` — error becomes part of the value
    Try { ty: Ty, id: String },
    Cached { ty: Ty, id: String },
    /// `cache.get_cached::<T>(id).is_some()`: records the dependency like
    /// `cached`, but keeps only the presence in the value
    Peek { ty: Ty, id: String },
    /// `cache.get_or_insert::<T>(id, T::from_n(n))` (only `N0`, `N1`, `L10t` and `S0`)
    Insert { ty: Ty, id: String, n: u64 },
    /// `cache.load_owned::<T>(id)` — error becomes part of the value
    Owned { ty: Ty, id: String },
    Contains { ty: Ty, id: String },
    /// load the directory handle, then `iter` (loading every listed id)
    Iter { ty: Ty, id: String },
    /// `iter_cached`
    IterCached { ty: Ty, id: String },
    NoRec(Vec<Op>),
    /// run the block against registered cache `slot`, optionally on a helper thread
    On { slot: usize, thread: bool, ops: Vec<Op> },
    Catch(Vec<Op>),
    Fail,
    Panic,
    Rendezvous { name: String, parties: usize },
    Spin(u64),
}

impl Op {
    pub fn render(&self, out: &mut String) {
        use std::fmt::Write;
        match self {
            Op::File { id, ext } => {
                let _ = write!(out, "file {} {} ", enc(id), enc(ext));
            }
            Op::ReadDir { id } => {
                let _ = write!(out, "readdir {} ", enc(id));
            }
            Op::Load { ty, id } => {
                let _ = write!(out, "load {} {} ", ty.tag(), enc(id));
            }
            Op::Try { ty, id } => {
                let _ = write!(out, "try {} {} ", ty.tag(), enc(id));
            }
            Op::Cached { ty, id } => {
                let _ = write!(out, "cached {} {} ", ty.tag(), enc(id));
            }
            Op::Owned { ty, id } => {
                let _ = write!(out, "owned {} {} ", ty.tag(), enc(id));
            }
            Op::Peek { ty, id } => {
                let _ = write!(out, "peek {} {} ", ty.tag(), enc(id));
            }
            Op::Insert { ty, id, n } => {
                let _ = write!(out, "insert {} {} {n} ", ty.tag(), enc(id));
            }
            Op::Contains { ty, id } => {
                let _ = write!(out, "contains {} {} ", ty.tag(), enc(id));
            }
            Op::Iter { ty, id } => {
                let _ = write!(out, "iter {} {} ", ty.tag(), enc(id));
            }
            Op::IterCached { ty, id } => {
                let _ = write!(out, "itercached {} {} ", ty.tag(), enc(id));
            }
            Op::NoRec(ops) => {
                out.push_str("norec { ");
                render_ops(ops, out);
                out.push_str("} ");
            }
            Op::On { slot, thread, ops } => {
                let _ = write!(out, "on {} {} {{ ", slot, if *thread { "thread" } else { "here" });
                render_ops(ops, out);
                out.push_str("} ");
            }
            Op::Catch(ops) => {
                out.push_str("catch { ");
                render_ops(ops, out);
                out.push_str("} ");
            }
            Op::Fail => out.push_str("fail "),
            Op::Panic => out.push_str("panic "),
            Op::Rendezvous { name, parties } => {
                let _ = write!(out, "rv {} {} ", enc(name), parties);
            }
            Op::Spin(n) => {
                let _ = write!(out, "spin {} ", n);
            }
        }
    }
}

/// ids may be empty: encode "" as "_" in recipe text
fn enc(s: &str) -> &str {
    if s.is_empty() {
        "_"
    } else {
        s
    }
}
fn dec(s: &str) -> String {
    if s == "_" {
        String::new()
    } else {
        s.to_string()
    }
}

pub fn render_ops(ops: &[Op], out: &mut String) {
    for o in ops {
        o.render(out);
    }
}

pub fn render_recipe(ops: &[Op]) -> String {
    let mut s = String::new();
    render_ops(ops, &mut s);
    s
}

pub fn parse_recipe(text: &str) -> Result<Vec<Op>, String> {
    let toks: Vec<&str> = text.split_whitespace().collect();
    let mut pos = 0;
    let ops = parse_block(&toks, &mut pos, false)?;
    if pos != toks.len() {
        return Err(format!("trailing token at {pos}"));
    }
    Ok(ops)
}

fn parse_block(toks: &[&str], pos: &mut usize, nested: bool) -> Result<Vec<Op>, String> {
    let mut ops = vec![];
    loop {
        let Some(&t) = toks.get(*pos) else {
            return if nested {
                Err("unterminated block".into())
            } else {
                Ok(ops)
            };
        };
        *pos += 1;
        let mut arg = |what: &str| -> Result<&str, String> {
            let a = toks.get(*pos).copied().ok_or(format!("missing {what}"))?;
            *pos += 1;
            Ok(a)
        };
        match t {
            "}" => {
                return if nested {
                    Ok(ops)
                } else {
                    Err("unexpected }".into())
                }
            }
            "file" => {
                let id = dec(arg("id")?);
                let ext = dec(arg("ext")?);
                ops.push(Op::File { id, ext });
            }
            "readdir" => ops.push(Op::ReadDir { id: dec(arg("id")?) }),
            "insert" => {
                let ty = Ty::parse(arg("type")?).ok_or("bad type")?;
                let id = dec(arg("id")?);
                let n = arg("n")?.parse::<u64>().map_err(|_| "bad n")?;
                ops.push(Op::Insert { ty, id, n });
            }
            "load" | "try" | "cached" | "peek" | "owned" | "contains" | "iter" | "itercached" => {
                let ty = Ty::parse(arg("type")?).ok_or("bad type")?;
                let id = dec(arg("id")?);
                ops.push(match t {
                    "load" => Op::Load { ty, id },
                    "try" => Op::Try { ty, id },
                    "cached" => Op::Cached { ty, id },
                    "peek" => Op::Peek { ty, id },
                    "owned" => Op::Owned { ty, id },
                    "contains" => Op::Contains { ty, id },
                    "iter" => Op::Iter { ty, id },
                    _ => Op::IterCached { ty, id },
                });
            }
            "norec" | "catch" => {
                if arg("{")? != "{" {
                    return Err("expected {".into());
                }
                let inner = parse_block(toks, pos, true)?;
                ops.push(if t == "norec" {
                    Op::NoRec(inner)
                } else {
                    Op::Catch(inner)
                });
            }
            "on" => {
                let slot: usize = arg("slot")?.parse().map_err(|_| "bad slot")?;
                let thread = match arg("mode")? {
                    "thread" => true,
                    "here" => false,
                    _ => return Err("bad on-mode".into()),
                };
                if arg("{")? != "{" {
                    return Err("expected {".into());
                }
                let inner = parse_block(toks, pos, true)?;
                ops.push(Op::On {
                    slot,
                    thread,
                    ops: inner,
                });
            }
            "fail" => ops.push(Op::Fail),
            "panic" => ops.push(Op::Panic),
            "rv" => {
                let name = dec(arg("name")?);
                let parties = arg("parties")?.parse().map_err(|_| "bad parties")?;
                ops.push(Op::Rendezvous { name, parties });
            }
            "spin" => ops.push(Op::Spin(arg("n")?.parse().map_err(|_| "bad n")?)),
            other => return Err(format!("unknown op {other:?}")),
        }
    }
}

// ---------------------------------------------------------------------------
// Generic dispatch over the type universe
// ---------------------------------------------------------------------------

/// Calls `$body` with `$T` bound to the concrete compound type for `$ty`.
#[macro_export]
macro_rules! with_compound {
    ($ty:expr, $T:ident => $body:expr, else $other:expr) => {{
        use $crate::assets::*;
        macro_rules! leaf_arm {
            ($e:literal, $d:literal, $h:literal) => {{
                type $T = Leaf<$e, $d, $h>;
                $body
            }};
        }
        match $ty {
            Ty::Leaf { e: 0, d: 0, h: true } => leaf_arm!(0, 0, true),
            Ty::Leaf { e: 0, d: 1, h: true } => leaf_arm!(0, 1, true),
            Ty::Leaf { e: 0, d: 2, h: true } => leaf_arm!(0, 2, true),
            Ty::Leaf { e: 1, d: 0, h: true } => leaf_arm!(1, 0, true),
            Ty::Leaf { e: 1, d: 1, h: true } => leaf_arm!(1, 1, true),
            Ty::Leaf { e: 1, d: 2, h: true } => leaf_arm!(1, 2, true),
            Ty::Leaf { e: 2, d: 0, h: true } => leaf_arm!(2, 0, true),
            Ty::Leaf { e: 2, d: 1, h: true } => leaf_arm!(2, 1, true),
            Ty::Leaf { e: 2, d: 2, h: true } => leaf_arm!(2, 2, true),
            Ty::Leaf { e: 3, d: 0, h: true } => leaf_arm!(3, 0, true),
            Ty::Leaf { e: 3, d: 1, h: true } => leaf_arm!(3, 1, true),
            Ty::Leaf { e: 3, d: 2, h: true } => leaf_arm!(3, 2, true),
            Ty::Leaf { e: 0, d: 0, h: false } => leaf_arm!(0, 0, false),
            Ty::Leaf { e: 0, d: 1, h: false } => leaf_arm!(0, 1, false),
            Ty::Leaf { e: 0, d: 2, h: false } => leaf_arm!(0, 2, false),
            Ty::Leaf { e: 1, d: 0, h: false } => leaf_arm!(1, 0, false),
            Ty::Leaf { e: 1, d: 1, h: false } => leaf_arm!(1, 1, false),
            Ty::Leaf { e: 1, d: 2, h: false } => leaf_arm!(1, 2, false),
            Ty::Leaf { e: 2, d: 0, h: false } => leaf_arm!(2, 0, false),
            Ty::Leaf { e: 2, d: 1, h: false } => leaf_arm!(2, 1, false),
            Ty::Leaf { e: 2, d: 2, h: false } => leaf_arm!(2, 2, false),
            Ty::Leaf { e: 3, d: 0, h: false } => leaf_arm!(3, 0, false),
            Ty::Leaf { e: 3, d: 1, h: false } => leaf_arm!(3, 1, false),
            Ty::Leaf { e: 3, d: 2, h: false } => leaf_arm!(3, 2, false),
            Ty::Big => {
                type $T = Big;
                $body
            }
            Ty::Node(0) => {
                type $T = Node<0>;
                $body
            }
            Ty::Node(1) => {
                type $T = Node<1>;
                $body
            }
            Ty::ArcNode => {
                type $T = std::sync::Arc<Node<0>>;
                $body
            }
            Ty::ArcLeafA => {
                type $T = std::sync::Arc<Leaf<1, 0, true>>;
                $body
            }
            Ty::Dir(Elem::LeafA) => {
                type $T = assets_manager::Directory<Leaf<1, 0, true>>;
                $body
            }
            Ty::Dir(Elem::LeafM) => {
                type $T = assets_manager::Directory<Leaf<3, 0, true>>;
                $body
            }
            Ty::Dir(Elem::Node0) => {
                type $T = assets_manager::Directory<Node<0>>;
                $body
            }
            Ty::Dir(Elem::ArcLeafA) => {
                type $T = assets_manager::Directory<std::sync::Arc<Leaf<1, 0, true>>>;
                $body
            }
            Ty::RecDir(Elem::LeafA) => {
                type $T = assets_manager::RecursiveDirectory<Leaf<1, 0, true>>;
                $body
            }
            Ty::RecDir(Elem::LeafM) => {
                type $T = assets_manager::RecursiveDirectory<Leaf<3, 0, true>>;
                $body
            }
            Ty::RecDir(Elem::Node0) => {
                type $T = assets_manager::RecursiveDirectory<Node<0>>;
                $body
            }
            Ty::RecDir(Elem::ArcLeafA) => {
                type $T = assets_manager::RecursiveDirectory<std::sync::Arc<Leaf<1, 0, true>>>;
                $body
            }
            Ty::Cell => {
                type $T = assets_manager::OnceInitCell<Leaf<1, 0, true>, CellVal>;
                $body
            }
            _ => $other,
        }
    }};
}

/// Like `with_compound!` but also covers the storable-only payload types.
#[macro_export]
macro_rules! with_storable {
    ($ty:expr, $T:ident => $body:expr) => {{
        $crate::with_compound!($ty, $T => $body, else match $ty {
            $crate::assets::Ty::Stored(0) => { type $T = $crate::assets::PTok; $body }
            $crate::assets::Ty::Stored(1) => { type $T = $crate::assets::PAlign; $body }
            $crate::assets::Ty::Stored(2) => { type $T = $crate::assets::PZst; $body }
            $crate::assets::Ty::Stored(3) => { type $T = u8; $body }
            other => panic!("vh: unsupported type {other:?}"),
        })
    }};
}

// ---------------------------------------------------------------------------
// Node<K>
// ---------------------------------------------------------------------------

pub struct Node<const K: u8> {
    pub token: Token,
    pub trace: Vec<V>,
}

pub fn node_ext(k: u8) -> &'static str {
    if k == 0 {
        "n0"
    } else {
        "n1"
    }
}

impl<const K: u8> Compound for Node<K> {
    fn load(cache: AnyCache, id: &SharedString) -> Result<Self, BoxedError> {
        let tag = Ty::Node(K).tag();
        let mut scope = match LoaderScope::enter(&tag, id) {
            Ok(s) => s,
            Err(_) => return Err(Box::new(InjectedLoaderError)),
        };
        let r = load_node(cache, id, node_ext(K));
        scope.finish(if r.is_ok() { "ok" } else { "err" });
        r.map(|trace| Node {
            token: Token::new(),
            trace,
        })
    }
}

fn load_node(cache: AnyCache, id: &str, ext: &str) -> Result<Vec<V>, BoxedError> {
    let text = {
        let source = cache.raw_source();
        let content = source.read(id, ext)?;
        String::from_utf8_lossy(content.as_ref()).into_owned()
    };
    let ops = parse_recipe(&text).map_err(RecipeSyntax)?;
    run_ops(cache, &ops)
}

impl<const K: u8> Describe for Node<K> {
    fn describe(&self) -> V {
        V::Node(self.trace.clone())
    }
    fn token_serial(&self) -> Option<usize> {
        Some(self.token.serial())
    }
}

impl DirLoadable for Node<0> {
    fn select_ids(cache: AnyCache, id: &SharedString) -> io::Result<Vec<SharedString>> {
        let mut ids = Vec::new();
        cache.raw_source().read_dir(id, &mut |entry| {
            if let DirEntry::File(id, ext) = entry {
                if ext == "n0" {
                    ids.push(id.into());
                }
            }
        })?;
        Ok(ids)
    }
}

impl<T: Describe> Describe for Arc<T> {
    fn describe(&self) -> V {
        (**self).describe()
    }
    fn token_serial(&self) -> Option<usize> {
        (**self).token_serial()
    }
}

impl<T> Describe for Directory<T> {
    fn describe(&self) -> V {
        V::Ids(self.ids().map(|s| s.to_string()).collect())
    }
}

impl<T> Describe for RecursiveDirectory<T> {
    fn describe(&self) -> V {
        let mut ids: Vec<String> = self.ids().map(|s| s.to_string()).collect();
        // the order of a recursive listing is unspecified: describe it sorted
        ids.sort();
        V::Ids(ids)
    }
}

/// Value produced by initialising a `Cell`.
pub struct CellVal {
    pub token: Token,
    pub n: u64,
}

impl<U: Describe> Describe for OnceInitCell<U, CellVal> {
    fn describe(&self) -> V {
        // The seed is not observable through `&self` once initialised; describe
        // what can be seen.
        match self.get() {
            Some(v) => V::Cell {
                seed: Box::new(V::Bool(true)),
                init: Some(v.n),
            },
            None => V::Cell {
                seed: Box::new(V::Bool(false)),
                init: None,
            },
        }
    }
}

// ---------------------------------------------------------------------------
// Storable-only payloads
// ---------------------------------------------------------------------------

pub struct PTok {
    pub token: Token,
    pub data: Vec<u64>,
    pub n: u64,
}
impl PTok {
    pub fn new(n: u64) -> PTok {
        PTok {
            token: Token::new(),
            data: vec![n; 3],
            n,
        }
    }
}
impl Storable for PTok {}
impl NotHotReloaded for PTok {}
impl Describe for PTok {
    fn describe(&self) -> V {
        assert!(self.data.iter().all(|w| *w == self.n));
        V::Stored(self.n)
    }
    fn token_serial(&self) -> Option<usize> {
        Some(self.token.serial())
    }
}

#[repr(align(64))]
pub struct PAlign {
    pub token: Token,
    pub n: u64,
}
impl PAlign {
    pub fn new(n: u64) -> PAlign {
        PAlign {
            token: Token::new(),
            n,
        }
    }
}
impl Storable for PAlign {}
impl NotHotReloaded for PAlign {}
impl Describe for PAlign {
    fn describe(&self) -> V {
        assert_eq!(self as *const _ as usize % 64, 0, "misaligned PAlign");
        V::Stored(self.n)
    }
    fn token_serial(&self) -> Option<usize> {
        Some(self.token.serial())
    }
}

/// Zero-sized payload; drops are counted globally.
pub struct PZst;
impl PZst {
    pub fn new(_n: u64) -> PZst {
        CTX.zst_live.fetch_add(1, SeqCst);
        CTX.zst_created.fetch_add(1, SeqCst);
        PZst
    }
}
impl Drop for PZst {
    fn drop(&mut self) {
        CTX.zst_live.fetch_sub(1, SeqCst);
    }
}
impl Storable for PZst {}
impl NotHotReloaded for PZst {}
impl Describe for PZst {
    fn describe(&self) -> V {
        V::Stored(0)
    }
}

impl Describe for u8 {
    fn describe(&self) -> V {
        V::Stored(*self as u64)
    }
}

/// Builds a payload of storable type `T` from a number.
pub trait FromN {
    fn from_n(n: u64) -> Self;
}
impl FromN for PTok {
    fn from_n(n: u64) -> Self {
        PTok::new(n)
    }
}
impl FromN for PAlign {
    fn from_n(n: u64) -> Self {
        PAlign::new(n)
    }
}
impl FromN for PZst {
    fn from_n(n: u64) -> Self {
        PZst::new(n)
    }
}
impl FromN for u8 {
    fn from_n(n: u64) -> Self {
        n as u8
    }
}
impl<const EX: u8, const D: u8, const H: bool> FromN for Leaf<EX, D, H> {
    fn from_n(n: u64) -> Self {
        Leaf {
            token: Token::new(),
            v: V::Stored(n),
        }
    }
}
impl FromN for Big {
    fn from_n(n: u64) -> Self {
        Big::new(n)
    }
}
impl<const K: u8> FromN for Node<K> {
    fn from_n(n: u64) -> Self {
        Node {
            token: Token::new(),
            trace: vec![V::Stored(n)],
        }
    }
}

// ---------------------------------------------------------------------------
// Real interpreter of recipes
// ---------------------------------------------------------------------------

fn describe_handle<T: Describe + Storable>(h: &assets_manager::Handle<T>) -> V {
    h.read().describe()
}

/// `cache.load::<T>(id)` described, for the type named by `ty`.
#[inline(never)]
pub fn op_load(cache: AnyCache, ty: Ty, id: &str) -> Result<V, assets_manager::Error> {
    fn go<T: Compound + Describe>(cache: AnyCache, id: &str) -> Result<V, assets_manager::Error> {
        Ok(describe_handle(cache.load::<T>(id)?))
    }
    crate::with_compound!(ty, T => go::<T>(cache, id), else panic!("vh: load of storable-only type"))
}

#[inline(never)]
pub fn op_owned(cache: AnyCache, ty: Ty, id: &str) -> Result<V, assets_manager::Error> {
    fn go<T: Compound + Describe>(cache: AnyCache, id: &str) -> Result<V, assets_manager::Error> {
        Ok(cache.load_owned::<T>(id)?.describe())
    }
    crate::with_compound!(ty, T => go::<T>(cache, id), else panic!("vh: load of storable-only type"))
}

#[inline(never)]
pub fn op_cached(cache: AnyCache, ty: Ty, id: &str) -> Option<V> {
    fn go<T: Storable + Describe>(cache: AnyCache, id: &str) -> Option<V> {
        cache.get_cached::<T>(id).map(describe_handle)
    }
    crate::with_storable!(ty, T => go::<T>(cache, id))
}

#[inline(never)]
pub fn op_peek(cache: AnyCache, ty: Ty, id: &str) -> bool {
    fn go<T: Storable>(cache: AnyCache, id: &str) -> bool {
        cache.get_cached::<T>(id).is_some()
    }
    crate::with_storable!(ty, T => go::<T>(cache, id))
}

#[inline(never)]
pub fn op_insert(cache: AnyCache, ty: Ty, id: &str, n: u64) -> V {
    fn go<T: Storable + Describe + FromN>(cache: AnyCache, id: &str, n: u64) -> V {
        describe_handle(cache.get_or_insert::<T>(id, T::from_n(n)))
    }
    match ty {
        Ty::Node(0) => go::<Node<0>>(cache, id, n),
        Ty::Node(1) => go::<Node<1>>(cache, id, n),
        Ty::Leaf { e: 1, d: 0, h: true } => go::<Leaf<1, 0, true>>(cache, id, n),
        Ty::Stored(0) => go::<PTok>(cache, id, n),
        other => panic!("vh: insert op unsupported for {other:?}"),
    }
}

#[inline(never)]
pub fn op_contains(cache: AnyCache, ty: Ty, id: &str) -> bool {
    fn go<T: Storable>(cache: AnyCache, id: &str) -> bool {
        cache.contains::<T>(id)
    }
    crate::with_storable!(ty, T => go::<T>(cache, id))
}

pub fn run_ops(cache: AnyCache, ops: &[Op]) -> Result<Vec<V>, BoxedError> {
    let mut out = Vec::with_capacity(ops.len());
    for op in ops {
        match op {
            Op::File { id, ext } => {
                let source = cache.raw_source();
                let r = source.read(id, ext);
                out.push(V::Read(match r {
                    Ok(c) => {
                        let b = c.as_ref();
                        Ok((b.len(), content_hash(b)))
                    }
                    Err(e) => Err(io_kind_name(e.kind())),
                }));
            }
            Op::ReadDir { id } => {
                let mut v = vec![];
                let r = cache.raw_source().read_dir(id, &mut |e| {
                    v.push(match e {
                        DirEntry::File(i, x) => format!("f:{i}:{x}"),
                        DirEntry::Directory(i) => format!("d:{i}"),
                    })
                });
                v.sort();
                out.push(V::Entries(match r {
                    Ok(()) => Ok(v),
                    Err(e) => Err(io_kind_name(e.kind())),
                }));
            }
            Op::Load { ty, id } => out.push(op_load(cache, *ty, id)?),
            Op::Try { ty, id } => out.push(V::Res(match op_load(cache, *ty, id) {
                Ok(v) => Ok(Box::new(v)),
                Err(e) => Err(describe_error(&e)),
            })),
            Op::Cached { ty, id } => out.push(V::Opt(op_cached(cache, *ty, id).map(Box::new))),
            Op::Peek { ty, id } => out.push(V::Bool(op_peek(cache, *ty, id))),
            Op::Insert { ty, id, n } => out.push(op_insert(cache, *ty, id, *n)),
            Op::Owned { ty, id } => out.push(V::Res(match op_owned(cache, *ty, id) {
                Ok(v) => Ok(Box::new(v)),
                Err(e) => Err(describe_error(&e)),
            })),
            Op::Contains { ty, id } => out.push(V::Bool(op_contains(cache, *ty, id))),
            Op::Iter { ty, id } => out.push(run_iter(cache, *ty, id, false)?),
            Op::IterCached { ty, id } => out.push(run_iter(cache, *ty, id, true)?),
            Op::NoRec(inner) => {
                let r = cache.no_record(|| run_ops(cache, inner))?;
                out.push(V::Sub(r));
            }
            Op::On { slot, thread, ops } => {
                // SAFETY: see `Ctx::cache`.
                let target = unsafe { CTX.cache(*slot) }.expect("vh: cache slot not registered");
                let r = if *thread {
                    std::thread::scope(|s| {
                        s.spawn(|| run_ops(target.as_any_cache(), ops))
                            .join()
                            .unwrap_or_else(|p| std::panic::resume_unwind(p))
                    })?
                } else {
                    run_ops(target.as_any_cache(), ops)?
                };
                out.push(V::Sub(r));
            }
            Op::Catch(inner) => {
                let r = std::panic::catch_unwind(std::panic::AssertUnwindSafe(|| {
                    run_ops(cache, inner)
                }));
                match r {
                    Ok(r) => out.push(V::Caught(Some(r?))),
                    Err(_) => out.push(V::Caught(None)),
                }
            }
            Op::Fail => return Err(Box::new(RecipeFail)),
            Op::Panic => panic!("vh: recipe panic"),
            Op::Rendezvous { name, parties } => {
                CTX.rendezvous(name, *parties);
            }
            Op::Spin(n) => {
                crate::util::spin(*n);
                std::thread::yield_now();
            }
        }
    }
    Ok(out)
}

fn run_iter(cache: AnyCache, ty: Ty, id: &str, cached_only: bool) -> Result<V, BoxedError> {
    macro_rules! go {
        ($dir:ty, $elem:ty) => {{
            let h = cache.load::<$dir>(id)?;
            let g = h.read();
            if cached_only {
                let mut v: Vec<V> = g
                    .iter_cached(cache)
                    .map(|h: &assets_manager::Handle<$elem>| {
                        V::Sub(vec![V::Ids(vec![h.id().to_string()]), describe_handle(h)])
                    })
                    .collect();
                // the iteration order of a recursive listing is unspecified
                v.sort();
                V::Sub(v)
            } else {
                let mut v: Vec<V> = g
                    .iter(cache)
                    .map(|r: Result<&assets_manager::Handle<$elem>, assets_manager::Error>| {
                        V::Res(match r {
                            Ok(h) => Ok(Box::new(describe_handle(h))),
                            Err(e) => Err(describe_error(&e)),
                        })
                    })
                    .collect();
                v.sort();
                V::Sub(v)
            }
        }};
    }
    Ok(match ty {
        Ty::Dir(Elem::LeafA) => go!(Directory<Leaf<1, 0, true>>, Leaf<1, 0, true>),
        Ty::Dir(Elem::LeafM) => go!(Directory<Leaf<3, 0, true>>, Leaf<3, 0, true>),
        Ty::Dir(Elem::Node0) => go!(Directory<Node<0>>, Node<0>),
        Ty::Dir(Elem::ArcLeafA) => go!(Directory<Arc<Leaf<1, 0, true>>>, Arc<Leaf<1, 0, true>>),
        Ty::RecDir(Elem::LeafA) => go!(RecursiveDirectory<Leaf<1, 0, true>>, Leaf<1, 0, true>),
        Ty::RecDir(Elem::LeafM) => go!(RecursiveDirectory<Leaf<3, 0, true>>, Leaf<3, 0, true>),
        Ty::RecDir(Elem::Node0) => go!(RecursiveDirectory<Node<0>>, Node<0>),
        Ty::RecDir(Elem::ArcLeafA) => {
            go!(RecursiveDirectory<Arc<Leaf<1, 0, true>>>, Arc<Leaf<1, 0, true>>)
        }
        other => panic!("vh: iter on non-directory type {other:?}"),
    })
}
