//! The pure reference model: an executable statement of the documented
//! semantics of the cache, of loading, of dependency recording and of
//! hot-reloading.  It never looks at the crate's internal state; it
//! interprets the same recipes over its own copy of the source tree.

use crate::assets::{
    content_hash, exts, io_kind_name, node_ext, parse_recipe, Elem, ErrClass, LoaderFault, Op, Ty,
    E, V,
};
use crate::mem::{parent_of, FaultKey, Tree};
use std::collections::{BTreeMap, BTreeSet, HashMap};
use std::io;

#[derive(Clone, Debug, PartialEq, Eq, Hash, PartialOrd, Ord)]
pub enum Dep {
    File(String, String),
    Dir(String),
    Asset(Ty, String),
}

pub type Key = (Ty, String);

#[derive(Clone, Debug, PartialEq, Eq)]
pub struct MEntry {
    pub value: V,
    /// stored with a lock (hot type in a cache with a reloader)
    pub dynamic: bool,
    /// inserted by `get_or_insert`: must never be rewritten
    pub protected: bool,
    pub reloads: u64,
}

#[derive(Clone, Debug, Default)]
pub struct MCache {
    pub hot: bool,
    pub src: Tree,
    pub entries: BTreeMap<Key, MEntry>,
    /// what the reloader knows: asset -> recorded dependencies
    pub graph: BTreeMap<Key, BTreeSet<Dep>>,
    pub read_faults: Vec<(FaultKey, io::ErrorKind)>,
    pub read_counts: HashMap<(String, String, bool), usize>,
    pub read_nth: usize,
}

#[derive(Clone, Debug)]
pub struct RecCtx {
    pub cache: usize,
    pub deps: BTreeSet<Dep>,
}

#[derive(Clone, Debug, PartialEq, Eq)]
pub enum Stop {
    /// a load failed with this error
    Err(E),
    /// a loader panicked
    Panic,
}

#[derive(Clone, Debug, PartialEq, Eq)]
enum OpStop {
    Reason(ErrClass),
    Panic,
}

#[derive(Clone, Debug, Default)]
pub struct Model {
    pub caches: Vec<MCache>,
    pub loader_faults: Vec<((String, String, usize), LoaderFault)>,
    pub loader_nth_faults: Vec<(usize, LoaderFault)>,
    pub loader_counts: HashMap<(String, String), usize>,
    pub loader_nth: usize,
    /// loader invocations performed by the model, in order: (type tag, key)
    pub loader_trace: Vec<(String, String)>,
    /// source reads performed by the model, in order
    pub read_trace: Vec<(usize, String, String, bool)>,
    pub trace_on: bool,
}

#[derive(Clone, Debug, Default)]
pub struct PassResult {
    /// every graph node reachable (reverse) from the notified entries
    pub closure: BTreeSet<Key>,
    /// cached, dynamic, unprotected members of the closure, dependencies first
    pub order: Vec<Key>,
    /// keys whose reload succeeded in the model's single operational pass
    pub reloaded: BTreeSet<Key>,
    /// keys whose reload failed (value kept)
    pub failed: BTreeSet<Key>,
    /// keys whose loader panicked during the pass
    pub panicked: BTreeSet<Key>,
    /// value of each `order` key before the pass
    pub before: BTreeMap<Key, V>,
    /// value after the single operational pass
    pub after_pass: BTreeMap<Key, V>,
    /// value at the fixpoint (what a fresh load against the final source and
    /// final cache gives; previous value where the fresh load fails)
    pub fixpoint: BTreeMap<Key, V>,
    /// keys for which `after_pass != fixpoint`, i.e. whose recomputed
    /// dependency set names an asset refreshed later in the same pass
    pub order_sensitive: BTreeSet<Key>,
    pub fixpoint_rounds: usize,
    /// entries that did not exist before the pass (created as a side effect of a reload)
    pub created: BTreeSet<Key>,
}

fn class_of_kind(k: io::ErrorKind) -> ErrClass {
    if k == io::ErrorKind::NotFound {
        ErrClass::NotFound
    } else {
        ErrClass::Io(io_kind_name(k))
    }
}

/// `new.or(old)` of the crate's private `ErrorKind`, on classes.
fn or_class(new: ErrClass, old: ErrClass) -> ErrClass {
    use ErrClass::*;
    match (&new, &old) {
        (NoDefault, _) => old,
        (Io(_) | NotFound, Conversion) => old,
        (NotFound, Io(_) | NotFound) => old,
        _ => new,
    }
}

impl Model {
    pub fn new(caches: Vec<(bool, Tree)>) -> Model {
        Model {
            caches: caches
                .into_iter()
                .map(|(hot, src)| MCache {
                    hot,
                    src,
                    ..Default::default()
                })
                .collect(),
            ..Default::default()
        }
    }

    // ----------------------------------------------------------------- faults

    pub fn reset_fault_counters(&mut self) {
        for c in &mut self.caches {
            c.read_counts.clear();
            c.read_nth = 0;
        }
        self.loader_counts.clear();
        self.loader_nth = 0;
    }

    pub fn clear_faults(&mut self) {
        for c in &mut self.caches {
            c.read_faults.clear();
        }
        self.loader_faults.clear();
        self.loader_nth_faults.clear();
    }

    fn read_fault(&mut self, c: usize, id: &str, ext: &str, is_dir: bool) -> Option<io::ErrorKind> {
        let mc = &mut self.caches[c];
        let n = mc.read_nth;
        mc.read_nth += 1;
        let occ_ref = mc
            .read_counts
            .entry((id.to_string(), ext.to_string(), is_dir))
            .or_insert(0);
        let occ = *occ_ref;
        *occ_ref += 1;
        for (k, kind) in &mc.read_faults {
            let m = match k {
                FaultKey::Nth(k) => *k == n,
                FaultKey::File { id: i, ext: e, occ: o } => !is_dir && i == id && e == ext && *o == occ,
                FaultKey::Dir { id: i, occ: o } => is_dir && i == id && *o == occ,
                FaultKey::FileAlways { id: i, ext: e } => !is_dir && i == id && e == ext,
                FaultKey::DirAlways { id: i } => is_dir && i == id,
            };
            if m {
                return Some(*kind);
            }
        }
        None
    }

    fn loader_fault(&mut self, tag: &str, key: &str) -> Option<LoaderFault> {
        let n = self.loader_nth;
        self.loader_nth += 1;
        if self.trace_on {
            self.loader_trace.push((tag.to_string(), key.to_string()));
        }
        let c = self
            .loader_counts
            .entry((tag.to_string(), key.to_string()))
            .or_insert(0);
        let occ = *c;
        *c += 1;
        self.loader_faults
            .iter()
            .find(|((t, k, o), _)| t == tag && k == key && (*o == occ || *o == usize::MAX))
            .map(|(_, f)| *f)
            .or_else(|| {
                self.loader_nth_faults
                    .iter()
                    .find(|(k, _)| *k == n)
                    .map(|(_, f)| *f)
            })
    }

    // ----------------------------------------------------------------- source

    fn record(rec: &mut Option<RecCtx>, c: usize, dep: Dep) {
        if let Some(r) = rec {
            if r.cache == c {
                r.deps.insert(dep);
            }
        }
    }

    fn read_file(
        &mut self,
        c: usize,
        id: &str,
        ext: &str,
        rec: &mut Option<RecCtx>,
    ) -> Result<std::sync::Arc<[u8]>, io::ErrorKind> {
        if self.caches[c].hot {
            Self::record(rec, c, Dep::File(id.to_string(), ext.to_string()));
        }
        if self.trace_on {
            self.read_trace
                .push((c, id.to_string(), ext.to_string(), false));
        }
        if let Some(k) = self.read_fault(c, id, ext, false) {
            return Err(k);
        }
        self.caches[c]
            .src
            .files
            .get(&(id.to_string(), ext.to_string()))
            .cloned()
            .ok_or(io::ErrorKind::NotFound)
    }

    fn read_dir(
        &mut self,
        c: usize,
        id: &str,
        rec: &mut Option<RecCtx>,
    ) -> Result<(Vec<(String, String)>, Vec<String>), io::ErrorKind> {
        if self.caches[c].hot {
            Self::record(rec, c, Dep::Dir(id.to_string()));
        }
        if self.trace_on {
            self.read_trace.push((c, id.to_string(), String::new(), true));
        }
        if let Some(k) = self.read_fault(c, id, "", true) {
            return Err(k);
        }
        self.caches[c]
            .src
            .children(id)
            .ok_or(io::ErrorKind::NotFound)
    }

    // ----------------------------------------------------------------- loading

    fn is_hot(&self, c: usize, ty: Ty) -> bool {
        ty.hot() && self.caches[c].hot
    }

    /// `cache.load::<T>(id)` with `rec` the recording context of the caller.
    pub fn load(
        &mut self,
        c: usize,
        ty: Ty,
        id: &str,
        rec: &mut Option<RecCtx>,
    ) -> Result<V, Stop> {
        let hot = self.is_hot(c, ty);
        if hot {
            Self::record(rec, c, Dep::Asset(ty, id.to_string()));
        }
        let key = (ty, id.to_string());
        if let Some(e) = self.caches[c].entries.get(&key) {
            return Ok(e.value.clone());
        }
        let v = self.load_and_record(c, ty, id, rec)?;
        let e = self.caches[c].entries.entry(key).or_insert(MEntry {
            value: v,
            dynamic: hot,
            protected: false,
            reloads: 0,
        });
        Ok(e.value.clone())
    }

    fn load_and_record(
        &mut self,
        c: usize,
        ty: Ty,
        id: &str,
        rec: &mut Option<RecCtx>,
    ) -> Result<V, Stop> {
        if self.is_hot(c, ty) {
            let mut inner = Some(RecCtx {
                cache: c,
                deps: BTreeSet::new(),
            });
            let r = self.compute(c, ty, id, &mut inner);
            if r.is_ok() {
                self.caches[c]
                    .graph
                    .insert((ty, id.to_string()), inner.unwrap().deps);
            }
            r
        } else {
            self.compute(c, ty, id, rec)
        }
    }

    pub fn load_owned(
        &mut self,
        c: usize,
        ty: Ty,
        id: &str,
        rec: &mut Option<RecCtx>,
    ) -> Result<V, Stop> {
        if self.is_hot(c, ty) {
            Self::record(rec, c, Dep::Asset(ty, id.to_string()));
        }
        self.load_and_record(c, ty, id, rec)
    }

    pub fn get_cached(&mut self, c: usize, ty: Ty, id: &str, rec: &mut Option<RecCtx>) -> Option<V> {
        if self.is_hot(c, ty) {
            Self::record(rec, c, Dep::Asset(ty, id.to_string()));
        }
        self.caches[c]
            .entries
            .get(&(ty, id.to_string()))
            .map(|e| e.value.clone())
    }

    /// What `T::from_n(n).describe()` gives for each type.
    pub fn stored_value(ty: Ty, n: u64) -> V {
        match ty {
            Ty::Big => V::Big(n),
            Ty::Node(_) => V::Node(vec![V::Stored(n)]),
            Ty::Stored(2) => V::Stored(0),
            Ty::Stored(3) => V::Stored(n as u8 as u64),
            _ => V::Stored(n),
        }
    }

    pub fn get_or_insert(&mut self, c: usize, ty: Ty, id: &str, n: u64) -> (V, bool) {
        let dynamic = self.is_hot(c, ty);
        let key = (ty, id.to_string());
        let mut inserted = false;
        let e = self.caches[c].entries.entry(key).or_insert_with(|| {
            inserted = true;
            MEntry {
                value: Self::stored_value(ty, n),
                dynamic,
                protected: true,
                reloads: 0,
            }
        });
        (e.value.clone(), inserted)
    }

    pub fn contains(&self, c: usize, ty: Ty, id: &str) -> bool {
        self.caches[c].entries.contains_key(&(ty, id.to_string()))
    }

    pub fn remove(&mut self, c: usize, ty: Ty, id: &str) -> bool {
        self.caches[c].entries.remove(&(ty, id.to_string())).is_some()
    }

    pub fn take(&mut self, c: usize, ty: Ty, id: &str) -> Option<V> {
        self.caches[c]
            .entries
            .remove(&(ty, id.to_string()))
            .map(|e| e.value)
    }

    pub fn clear(&mut self, c: usize) {
        self.caches[c].entries.clear();
    }

    fn err(id: &str, class: ErrClass) -> Stop {
        Stop::Err(E {
            id: id.to_string(),
            class,
        })
    }

    /// Runs the loader of `(ty, id)` (no cache look-up, no insertion).
    pub fn compute(
        &mut self,
        c: usize,
        ty: Ty,
        id: &str,
        rec: &mut Option<RecCtx>,
    ) -> Result<V, Stop> {
        match ty {
            Ty::Leaf { e, d, .. } => self.compute_leaf(c, &ty.tag(), exts(e), d, id, rec),
            Ty::ArcLeafA => self.compute_leaf(c, "L10t", exts(1), 0, id, rec),
            Ty::Cell => {
                self.compute_leaf(c, "L10t", exts(1), 0, id, rec)?;
                Ok(V::Cell {
                    seed: Box::new(V::Bool(false)),
                    init: None,
                })
            }
            Ty::Big => {
                let mut class = ErrClass::NoDefault;
                match self.read_file(c, id, "big", rec) {
                    Err(k) => class = or_class(class_of_kind(k), class),
                    Ok(bytes) => {
                        let key = format!("{:016x}", content_hash(&bytes));
                        match self.loader_fault("B", &key) {
                            Some(LoaderFault::Panic) => return Err(Stop::Panic),
                            Some(LoaderFault::Err) => class = ErrClass::Conversion,
                            None => match std::str::from_utf8(&bytes)
                                .ok()
                                .and_then(|s| s.trim().parse::<u64>().ok())
                            {
                                Some(g) => return Ok(V::Big(g)),
                                None => class = ErrClass::Conversion,
                            },
                        }
                    }
                }
                Err(Self::err(id, class))
            }
            Ty::Node(k) => self.compute_node(c, &format!("N{k}"), node_ext(k), id, rec),
            Ty::ArcNode => self.compute_node(c, "N0", node_ext(0), id, rec),
            Ty::Dir(el) => match self.read_dir(c, id, rec) {
                Err(k) => Err(Self::err(id, class_of_kind(k))),
                Ok((files, _)) => {
                    let mut ids: Vec<String> = files
                        .into_iter()
                        .filter(|(_, x)| el.exts().contains(&x.as_str()))
                        .map(|(i, _)| i)
                        .collect();
                    ids.sort();
                    ids.dedup();
                    Ok(V::Ids(ids))
                }
            },
            Ty::RecDir(el) => {
                let this = match self.load(c, Ty::Dir(el), id, rec) {
                    Ok(v) => v,
                    Err(Stop::Err(e)) => {
                        return Err(Self::err(id, ErrClass::Nested(Box::new(e))))
                    }
                    Err(Stop::Panic) => return Err(Stop::Panic),
                };
                let V::Ids(mut ids) = this else {
                    panic!("model: directory value is not Ids")
                };
                let dirs = match self.read_dir(c, id, rec) {
                    Ok((_, dirs)) => dirs,
                    Err(k) => return Err(Self::err(id, class_of_kind(k))),
                };
                for d in dirs {
                    match self.load(c, Ty::RecDir(el), &d, rec) {
                        Ok(V::Ids(ch)) => ids.extend(ch),
                        Ok(_) => panic!("model: recursive directory value is not Ids"),
                        Err(Stop::Err(_)) => {}
                        Err(Stop::Panic) => return Err(Stop::Panic),
                    }
                }
                ids.sort();
                Ok(V::Ids(ids))
            }
            Ty::Stored(_) => panic!("model: storable-only types cannot be loaded"),
        }
    }

    fn compute_leaf(
        &mut self,
        c: usize,
        tag: &str,
        extensions: &[&str],
        d: u8,
        id: &str,
        rec: &mut Option<RecCtx>,
    ) -> Result<V, Stop> {
        let mut class = ErrClass::NoDefault;
        for ext in extensions {
            match self.read_file(c, id, ext, rec) {
                Err(k) => class = or_class(class_of_kind(k), class),
                Ok(bytes) => {
                    let hash = content_hash(&bytes);
                    match self.loader_fault(tag, &format!("{hash:016x}")) {
                        Some(LoaderFault::Panic) => return Err(Stop::Panic),
                        Some(LoaderFault::Err) => class = or_class(ErrClass::Conversion, class),
                        None => {
                            if bytes.first() == Some(&b'!') {
                                class = or_class(ErrClass::Conversion, class);
                            } else {
                                return Ok(V::Leaf {
                                    ext: ext.to_string(),
                                    len: bytes.len(),
                                    hash,
                                });
                            }
                        }
                    }
                }
            }
        }
        match d {
            0 => Err(Self::err(id, class)),
            1 => Ok(V::LeafDefault),
            _ => Err(Self::err(id, ErrClass::DefaultRefused)),
        }
    }

    fn compute_node(
        &mut self,
        c: usize,
        tag: &str,
        ext: &str,
        id: &str,
        rec: &mut Option<RecCtx>,
    ) -> Result<V, Stop> {
        match self.loader_fault(tag, id) {
            Some(LoaderFault::Panic) => return Err(Stop::Panic),
            Some(LoaderFault::Err) => return Err(Self::err(id, ErrClass::Injected)),
            None => {}
        }
        let bytes = match self.read_file(c, id, ext, rec) {
            Ok(b) => b,
            Err(k) => return Err(Self::err(id, class_of_kind(k))),
        };
        let text = String::from_utf8_lossy(&bytes).into_owned();
        let ops = match parse_recipe(&text) {
            Ok(o) => o,
            Err(_) => return Err(Self::err(id, ErrClass::RecipeSyntax)),
        };
        match self.run_ops(c, &ops, rec) {
            Ok(trace) => Ok(V::Node(trace)),
            Err(OpStop::Reason(class)) => Err(Self::err(id, class)),
            Err(OpStop::Panic) => Err(Stop::Panic),
        }
    }

    fn run_ops(
        &mut self,
        c: usize,
        ops: &[Op],
        rec: &mut Option<RecCtx>,
    ) -> Result<Vec<V>, OpStop> {
        let mut out = vec![];
        for op in ops {
            match op {
                Op::File { id, ext } => {
                    let r = self.read_file(c, id, ext, rec);
                    out.push(V::Read(match r {
                        Ok(b) => Ok((b.len(), content_hash(&b))),
                        Err(k) => Err(io_kind_name(k)),
                    }));
                }
                Op::ReadDir { id } => {
                    let r = self.read_dir(c, id, rec);
                    out.push(V::Entries(match r {
                        Ok((files, dirs)) => {
                            let mut v: Vec<String> = files
                                .iter()
                                .map(|(i, x)| format!("f:{i}:{x}"))
                                .chain(dirs.iter().map(|d| format!("d:{d}")))
                                .collect();
                            v.sort();
                            Ok(v)
                        }
                        Err(k) => Err(io_kind_name(k)),
                    }));
                }
                Op::Load { ty, id } => match self.load(c, *ty, id, rec) {
                    Ok(v) => out.push(v),
                    Err(Stop::Err(e)) => return Err(OpStop::Reason(ErrClass::Nested(Box::new(e)))),
                    Err(Stop::Panic) => return Err(OpStop::Panic),
                },
                Op::Try { ty, id } => match self.load(c, *ty, id, rec) {
                    Ok(v) => out.push(V::Res(Ok(Box::new(v)))),
                    Err(Stop::Err(e)) => out.push(V::Res(Err(e))),
                    Err(Stop::Panic) => return Err(OpStop::Panic),
                },
                Op::Cached { ty, id } => {
                    let v = self.get_cached(c, *ty, id, rec);
                    out.push(V::Opt(v.map(Box::new)));
                }
                Op::Peek { ty, id } => {
                    let v = self.get_cached(c, *ty, id, rec);
                    out.push(V::Bool(v.is_some()));
                }
                Op::Insert { ty, id, n } => {
                    // looks the key up (recorded like get_cached), inserts when absent
                    let _ = self.get_cached(c, *ty, id, rec);
                    out.push(self.get_or_insert(c, *ty, id, *n).0);
                }
                Op::Owned { ty, id } => match self.load_owned(c, *ty, id, rec) {
                    Ok(v) => out.push(V::Res(Ok(Box::new(v)))),
                    Err(Stop::Err(e)) => out.push(V::Res(Err(e))),
                    Err(Stop::Panic) => return Err(OpStop::Panic),
                },
                Op::Contains { ty, id } => out.push(V::Bool(self.contains(c, *ty, id))),
                Op::Iter { ty, id } | Op::IterCached { ty, id } => {
                    let cached_only = matches!(op, Op::IterCached { .. });
                    let el = match ty {
                        Ty::Dir(el) | Ty::RecDir(el) => *el,
                        other => panic!("model: iter on {other:?}"),
                    };
                    let ids = match self.load(c, *ty, id, rec) {
                        Ok(V::Ids(ids)) => ids,
                        Ok(_) => panic!("model: directory value is not Ids"),
                        Err(Stop::Err(e)) => {
                            return Err(OpStop::Reason(ErrClass::Nested(Box::new(e))))
                        }
                        Err(Stop::Panic) => return Err(OpStop::Panic),
                    };
                    let mut vs = vec![];
                    for i in ids {
                        if cached_only {
                            if let Some(v) = self.get_cached(c, el.ty(), &i, rec) {
                                vs.push(V::Sub(vec![V::Ids(vec![i.clone()]), v]));
                            }
                        } else {
                            match self.load(c, el.ty(), &i, rec) {
                                Ok(v) => vs.push(V::Res(Ok(Box::new(v)))),
                                Err(Stop::Err(e)) => vs.push(V::Res(Err(e))),
                                Err(Stop::Panic) => return Err(OpStop::Panic),
                            }
                        }
                    }
                    vs.sort();
                    out.push(V::Sub(vs));
                }
                Op::NoRec(inner) => {
                    let r = self.run_ops(c, inner, &mut None)?;
                    out.push(V::Sub(r));
                }
                Op::On { slot, thread, ops } => {
                    let r = if *thread {
                        self.run_ops(*slot, ops, &mut None)?
                    } else {
                        self.run_ops(*slot, ops, rec)?
                    };
                    out.push(V::Sub(r));
                }
                Op::Catch(inner) => match self.run_ops(c, inner, rec) {
                    Ok(r) => out.push(V::Caught(Some(r))),
                    Err(OpStop::Panic) => out.push(V::Caught(None)),
                    Err(e) => return Err(e),
                },
                Op::Fail => return Err(OpStop::Reason(ErrClass::RecipeFail)),
                Op::Panic => return Err(OpStop::Panic),
                Op::Rendezvous { .. } | Op::Spin(_) => {}
            }
        }
        Ok(out)
    }

    // ----------------------------------------------------------------- hot-reloading

    fn dep_of_entry(e: &assets_manager::source::OwnedDirEntry) -> Dep {
        match e {
            assets_manager::source::OwnedDirEntry::File(id, ext) => {
                Dep::File(id.to_string(), ext.to_string())
            }
            assets_manager::source::OwnedDirEntry::Directory(id) => Dep::Dir(id.to_string()),
        }
    }

    /// Reverse-reachability closure of the notified entries in the recorded graph.
    pub fn closure(&self, c: usize, notified: &[Dep]) -> BTreeSet<Key> {
        let g = &self.caches[c].graph;
        let mut work: Vec<Dep> = notified.to_vec();
        let mut seen: BTreeSet<Dep> = BTreeSet::new();
        let mut out = BTreeSet::new();
        while let Some(d) = work.pop() {
            if !seen.insert(d.clone()) {
                continue;
            }
            for (k, deps) in g {
                if deps.contains(&d) && out.insert(k.clone()) {
                    work.push(Dep::Asset(k.0, k.1.clone()));
                }
            }
        }
        out
    }

    /// Dependencies-first order of `set` according to the current graph.
    fn topo(&self, c: usize, set: &BTreeSet<Key>) -> Vec<Key> {
        fn visit(
            k: &Key,
            g: &BTreeMap<Key, BTreeSet<Dep>>,
            set: &BTreeSet<Key>,
            done: &mut BTreeSet<Key>,
            out: &mut Vec<Key>,
        ) {
            if !done.insert(k.clone()) {
                return;
            }
            if let Some(deps) = g.get(k) {
                for d in deps {
                    if let Dep::Asset(t, i) = d {
                        let dk = (*t, i.clone());
                        if set.contains(&dk) {
                            visit(&dk, g, set, done, out);
                        }
                    }
                }
            }
            out.push(k.clone());
        }
        let mut done = BTreeSet::new();
        let mut out = vec![];
        for k in set {
            visit(k, &self.caches[c].graph, set, &mut done, &mut out);
        }
        out
    }

    fn reloadable(&self, c: usize, k: &Key) -> bool {
        self.caches[c]
            .entries
            .get(k)
            .is_some_and(|e| e.dynamic && !e.protected)
    }

    /// One hot-reloading pass for the given notified entries.
    pub fn pass(&mut self, c: usize, notified: &[assets_manager::source::OwnedDirEntry]) -> PassResult {
        let deps: Vec<Dep> = notified.iter().map(Self::dep_of_entry).collect();
        self.pass_deps(c, &deps)
    }

    pub fn pass_deps(&mut self, c: usize, notified: &[Dep]) -> PassResult {
        let mut res = PassResult::default();
        if !self.caches[c].hot {
            return res;
        }
        let keys_before: BTreeSet<Key> = self.caches[c].entries.keys().cloned().collect();
        res.closure = self.closure(c, notified);
        let order_all = self.topo(c, &res.closure);
        res.order = order_all
            .iter()
            .filter(|k| self.reloadable(c, k))
            .cloned()
            .collect();
        for k in &res.order {
            res.before
                .insert(k.clone(), self.caches[c].entries[k].value.clone());
        }
        // single operational pass
        for k in &res.order.clone() {
            let mut rec = Some(RecCtx {
                cache: c,
                deps: BTreeSet::new(),
            });
            match self.compute(c, k.0, &k.1, &mut rec) {
                Ok(v) => {
                    // the entry may have disappeared?  (no: removal needs &mut cache)
                    if let Some(e) = self.caches[c].entries.get_mut(k) {
                        e.value = v;
                        e.reloads += 1;
                    }
                    self.caches[c].graph.insert(k.clone(), rec.unwrap().deps);
                    res.reloaded.insert(k.clone());
                }
                Err(Stop::Err(_)) => {
                    res.failed.insert(k.clone());
                }
                Err(Stop::Panic) => {
                    res.panicked.insert(k.clone());
                }
            }
        }
        for k in &res.order {
            res.after_pass
                .insert(k.clone(), self.caches[c].entries[k].value.clone());
        }
        // fixpoint: what fresh loads against the final source / cache give
        let mut fix = self.clone();
        fix.trace_on = false;
        fix.clear_faults();
        let mut rounds = 0;
        loop {
            rounds += 1;
            let mut changed = false;
            // the affected assets plus every entry that a reload of this pass
            // created as a side effect (it was loaded while its dependencies
            // were still being refreshed)
            let mut todo: Vec<Key> = res.order.clone();
            for k in fix.caches[c].entries.keys() {
                if !keys_before.contains(k) && fix.reloadable(c, k) && !todo.contains(k) {
                    todo.push(k.clone());
                }
            }
            for k in &todo {
                let mut rec = Some(RecCtx {
                    cache: c,
                    deps: BTreeSet::new(),
                });
                if let Ok(v) = fix.compute(c, k.0, &k.1, &mut rec) {
                    let e = fix.caches[c].entries.get_mut(k).unwrap();
                    if e.value != v {
                        e.value = v;
                        changed = true;
                    }
                    // dependency sets are re-learned at every reload
                    fix.caches[c].graph.insert(k.clone(), rec.unwrap().deps);
                }
            }
            if !changed || rounds >= 12 {
                break;
            }
        }
        res.fixpoint_rounds = rounds;
        for k in &res.order {
            let fv = fix.caches[c].entries[k].value.clone();
            if fv != res.after_pass[k] {
                res.order_sensitive.insert(k.clone());
            }
            res.fixpoint.insert(k.clone(), fv);
        }
        // side-effect entries whose value differs at the fixpoint
        let side_effect_stale = fix.caches[c]
            .entries
            .iter()
            .any(|(k, e)| !keys_before.contains(k) && self.caches[c].entries.get(k).map(|x| &x.value) != Some(&e.value));
        if side_effect_stale {
            res.order_sensitive.extend(res.order.iter().cloned());
        }
        // NOTE: the fixpoint is *not* committed.  The caller synchronises the
        // model's values with the values observed in the real cache and judges
        // every affected asset locally ("equals a fresh load against the
        // current source and the current cache"), see `World::pass`.
        // entries that only the fixpoint evaluation created may exist in the
        // real cache too (its reload order is its own): keep them, the caller
        // drops those the real cache does not have
        for (k, e) in &fix.caches[c].entries {
            if !self.caches[c].entries.contains_key(k) {
                self.caches[c].entries.insert(k.clone(), e.clone());
                if let Some(g) = fix.caches[c].graph.get(k) {
                    self.caches[c].graph.insert(k.clone(), g.clone());
                }
            }
        }
        res.created = self.caches[c]
            .entries
            .keys()
            .filter(|k| !keys_before.contains(*k))
            .cloned()
            .collect();
        res
    }

    /// What a fresh load of `(ty, id)` against the current source and cache
    /// would give (evaluated on a copy: no state change, no faults), together
    /// with the dependency set that load records.
    pub fn fresh(&self, c: usize, ty: Ty, id: &str) -> (Result<V, Stop>, BTreeSet<Dep>) {
        let mut m = self.clone();
        m.trace_on = false;
        m.clear_faults();
        let mut rec = Some(RecCtx {
            cache: c,
            deps: BTreeSet::new(),
        });
        let r = m.compute(c, ty, id, &mut rec);
        (r, rec.unwrap().deps)
    }

    // ----------------------------------------------------------------- editing

    pub fn write(&mut self, c: usize, id: &str, ext: &str, content: &[u8]) {
        let t = &mut self.caches[c].src;
        let mut cur = parent_of(id);
        while let Some(p) = cur {
            if p.is_empty() {
                break;
            }
            t.dirs.insert(p.to_string());
            cur = parent_of(p);
        }
        t.files
            .insert((id.to_string(), ext.to_string()), std::sync::Arc::from(content));
    }

    pub fn remove_file(&mut self, c: usize, id: &str, ext: &str) {
        self.caches[c]
            .src
            .files
            .remove(&(id.to_string(), ext.to_string()));
    }

    pub fn set_src(&mut self, c: usize, t: Tree) {
        self.caches[c].src = t;
    }
}

/// Checks an observed error class against the expectation, where only the
/// *class* (and for I/O errors: that the kind is one of the kinds that
/// occurred) is judged.
pub fn same_error(observed: &E, expected: &E) -> bool {
    observed == expected
}

pub fn elem_of(ty: Ty) -> Option<Elem> {
    match ty {
        Ty::Dir(e) | Ty::RecDir(e) => Some(e),
        _ => None,
    }
}
