//! Captures the crate's `log` output so warnings become observable events.

use std::sync::atomic::{AtomicU64, Ordering::SeqCst};
use std::sync::Mutex;

struct Cap;

static LINES: Mutex<Vec<(log::Level, String)>> = Mutex::new(Vec::new());
static WARN_RELOAD_ERR: AtomicU64 = AtomicU64::new(0);
static WARN_INEXISTANT_RDEP: AtomicU64 = AtomicU64::new(0);
static INFO_RELOADING: AtomicU64 = AtomicU64::new(0);
static ERRORS: AtomicU64 = AtomicU64::new(0);

impl log::Log for Cap {
    fn enabled(&self, m: &log::Metadata) -> bool {
        m.level() <= if std::env::var_os("VH_TRACE").is_some() { log::Level::Trace } else { log::Level::Info }
    }
    fn log(&self, r: &log::Record) {
        if !self.enabled(r.metadata()) {
            return;
        }
        let msg = r.args().to_string();
        if std::env::var_os("VH_TRACE").is_some() {
            eprintln!("[{}] {}", r.level(), msg);
        }
        if msg.starts_with("Error reloading") {
            WARN_RELOAD_ERR.fetch_add(1, SeqCst);
        } else if msg.starts_with("Inexistant reverse dependency") {
            WARN_INEXISTANT_RDEP.fetch_add(1, SeqCst);
        } else if msg.starts_with("Reloading \"") {
            INFO_RELOADING.fetch_add(1, SeqCst);
        }
        if r.level() == log::Level::Error {
            ERRORS.fetch_add(1, SeqCst);
        }
        if r.level() <= log::Level::Warn {
            let mut l = LINES.lock().unwrap_or_else(|e| e.into_inner());
            if l.len() < 200 {
                l.push((r.level(), msg));
            }
        }
    }
    fn flush(&self) {}
}

pub fn install() {
    static C: Cap = Cap;
    let _ = log::set_logger(&C);
    log::set_max_level(if std::env::var_os("VH_TRACE").is_some() { log::LevelFilter::Trace } else { log::LevelFilter::Info });
}

pub fn reload_errors() -> u64 {
    WARN_RELOAD_ERR.load(SeqCst)
}
pub fn inexistant_rdeps() -> u64 {
    WARN_INEXISTANT_RDEP.load(SeqCst)
}
pub fn reloadings() -> u64 {
    INFO_RELOADING.load(SeqCst)
}
pub fn errors() -> u64 {
    ERRORS.load(SeqCst)
}
pub fn take_lines() -> Vec<(log::Level, String)> {
    std::mem::take(&mut *LINES.lock().unwrap_or_else(|e| e.into_inner()))
}
