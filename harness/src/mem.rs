//! `Mem`: an instrumented in-memory `Source`.
//!
//! * shared tree (clones see the same state, so the reloader thread reads what
//!   the harness edits);
//! * the harness decides exactly which notifications are sent;
//! * read log with a global logical clock;
//! * fault plan (k-th read fails, n-th read of a given entry fails, ...);
//! * content can be served as any `FileContent` variant.

use assets_manager::hot_reloading::EventSender;
use assets_manager::source::{DirEntry, FileContent, OwnedDirEntry, Source};
use assets_manager::BoxedError;
use std::collections::{BTreeMap, BTreeSet, HashMap};
use std::io;
use std::sync::atomic::{AtomicBool, AtomicU64, AtomicU8, AtomicUsize, Ordering::SeqCst};
use std::sync::{Arc, Mutex, MutexGuard};

/// Global logical clock shared by every log of the harness.
pub static CLOCK: AtomicU64 = AtomicU64::new(1);

#[inline]
pub fn tick() -> u64 {
    CLOCK.fetch_add(1, SeqCst)
}

thread_local! {
    static THREAD_NO: u32 = {
        static NEXT: AtomicUsize = AtomicUsize::new(1);
        NEXT.fetch_add(1, SeqCst) as u32
    };
    static IS_RELOADER: bool = std::thread::current().name() == Some("assets_hot_reload");
}

/// Small per-thread number (stable for the thread's life).
pub fn thread_no() -> u32 {
    THREAD_NO.with(|n| *n)
}

/// `true` on the crate's background reloader thread.
pub fn on_reloader_thread() -> bool {
    IS_RELOADER.with(|b| *b)
}

fn lock<T>(m: &Mutex<T>) -> MutexGuard<'_, T> {
    m.lock().unwrap_or_else(|e| e.into_inner())
}

pub fn parent_of(id: &str) -> Option<&str> {
    if id.is_empty() {
        None
    } else {
        Some(id.rfind('.').map_or("", |n| &id[..n]))
    }
}

#[derive(Clone, Debug, Default, PartialEq, Eq)]
pub struct Tree {
    pub files: BTreeMap<(String, String), Arc<[u8]>>,
    /// explicit directories; the root `""` always exists
    pub dirs: BTreeSet<String>,
}

impl Tree {
    pub fn dir_exists(&self, id: &str) -> bool {
        id.is_empty() || self.dirs.contains(id)
    }

    fn ensure_dirs(&mut self, id: &str) -> Vec<String> {
        let mut created = vec![];
        let mut cur = parent_of(id);
        while let Some(p) = cur {
            if p.is_empty() {
                break;
            }
            if self.dirs.insert(p.to_string()) {
                created.push(p.to_string());
            }
            cur = parent_of(p);
        }
        created
    }

    /// Children of directory `id`: (files as (id, ext), dirs as id), sorted.
    pub fn children(&self, id: &str) -> Option<(Vec<(String, String)>, Vec<String>)> {
        if !self.dir_exists(id) {
            return None;
        }
        let files = self
            .files
            .keys()
            .filter(|(fid, _)| parent_of(fid) == Some(id))
            .cloned()
            .collect();
        let dirs = self
            .dirs
            .iter()
            .filter(|d| parent_of(d) == Some(id))
            .cloned()
            .collect();
        Some((files, dirs))
    }
}

#[derive(Clone, Copy, Debug, PartialEq, Eq)]
pub enum Op {
    Read,
    ReadDir,
    Exists,
}

#[derive(Clone, Debug)]
pub struct ReadEv {
    pub seq: u64,
    pub thread: u32,
    pub reloader: bool,
    pub op: Op,
    pub id: String,
    pub ext: String,
    /// `None` = success
    pub err: Option<io::ErrorKind>,
    /// whether the failure was injected by the fault plan
    pub injected: bool,
}

#[derive(Clone, Debug, PartialEq, Eq)]
pub enum FaultKey {
    /// the k-th `read`/`read_dir` (0-based) since the counters were reset
    Nth(usize),
    /// the `occ`-th read (0-based) of file (id, ext) since reset
    File { id: String, ext: String, occ: usize },
    /// the `occ`-th read_dir of directory id since reset
    Dir { id: String, occ: usize },
    /// every read of the file until the rule is removed
    FileAlways { id: String, ext: String },
    /// every read_dir of the directory until the rule is removed
    DirAlways { id: String },
}

#[derive(Default)]
struct Faults {
    rules: Vec<(FaultKey, io::ErrorKind)>,
    nth: usize,
    per_key: HashMap<(String, String, bool), usize>,
    fired: Vec<(FaultKey, io::ErrorKind, u64)>,
}

impl Faults {
    fn check(&mut self, id: &str, ext: &str, is_dir: bool) -> Option<io::ErrorKind> {
        let n = self.nth;
        self.nth += 1;
        let occ_ref = self
            .per_key
            .entry((id.to_string(), ext.to_string(), is_dir))
            .or_insert(0);
        let occ = *occ_ref;
        *occ_ref += 1;
        let mut hit = None;
        for (k, kind) in &self.rules {
            let m = match k {
                FaultKey::Nth(k) => *k == n,
                FaultKey::File { id: i, ext: e, occ: o } => !is_dir && i == id && e == ext && *o == occ,
                FaultKey::Dir { id: i, occ: o } => is_dir && i == id && *o == occ,
                FaultKey::FileAlways { id: i, ext: e } => !is_dir && i == id && e == ext,
                FaultKey::DirAlways { id: i } => is_dir && i == id,
            };
            if m {
                hit = Some((k.clone(), *kind));
                break;
            }
        }
        if let Some((k, kind)) = hit {
            self.fired.push((k, kind, CLOCK.load(SeqCst)));
            return Some(kind);
        }
        None
    }
}

#[derive(Clone, Copy, Debug, PartialEq, Eq)]
pub enum Hot {
    /// `make_source` returns a clone, `configure_hot_reloading` keeps the sender
    Yes,
    /// `make_source` returns `None` (source does not support hot-reloading)
    No,
    /// `make_source` works but `configure_hot_reloading` fails
    ConfigureFails,
    /// like `Yes`, but the sender is handed to the harness only (`take_sender`),
    /// so dropping it there disconnects the event channel
    SenderToHarness,
}

struct Inner {
    name: String,
    hot: Hot,
    tree: Mutex<Tree>,
    sender: Mutex<Option<EventSender>>,
    /// batches for which `send_multiple` reported another number of events than it was given
    miscounted: AtomicU64,
    log: Mutex<Vec<ReadEv>>,
    log_on: AtomicBool,
    faults: Mutex<Faults>,
    sent: AtomicUsize,
    /// 0 = Buffer, 1 = Slice, 2 = Owned, 3 = rotate per read
    content_mode: AtomicU8,
    rot: AtomicUsize,
    arena: Mutex<Vec<Arc<[u8]>>>,
    clones: AtomicUsize,
}

#[derive(Clone)]
pub struct Mem(Arc<Inner>);

impl std::fmt::Debug for Mem {
    fn fmt(&self, f: &mut std::fmt::Formatter<'_>) -> std::fmt::Result {
        write!(f, "Mem({})", self.0.name)
    }
}

#[derive(Clone, Debug, PartialEq, Eq)]
pub enum Change {
    Modified,
    Created,
    Removed,
    Unchanged,
}

impl Mem {
    pub fn new(name: &str, hot: Hot) -> Mem {
        Mem(Arc::new(Inner {
            name: name.to_string(),
            hot,
            tree: Mutex::new(Tree::default()),
            sender: Mutex::new(None),
            miscounted: AtomicU64::new(0),
            log: Mutex::new(Vec::new()),
            log_on: AtomicBool::new(true),
            faults: Mutex::new(Faults::default()),
            sent: AtomicUsize::new(0),
            content_mode: AtomicU8::new(0),
            rot: AtomicUsize::new(0),
            arena: Mutex::new(Vec::new()),
            clones: AtomicUsize::new(0),
        }))
    }

    pub fn name(&self) -> &str {
        &self.0.name
    }

    pub fn same(&self, other: &Mem) -> bool {
        Arc::ptr_eq(&self.0, &other.0)
    }

    /// Number of `Mem` handles sharing this tree (harness + caches + reloader threads).
    pub fn strong_count(&self) -> usize {
        Arc::strong_count(&self.0)
    }

    pub fn make_source_calls(&self) -> usize {
        self.0.clones.load(SeqCst)
    }

    // ------------------------------------------------------------ editing

    pub fn snapshot(&self) -> Tree {
        lock(&self.0.tree).clone()
    }

    pub fn set_tree(&self, t: Tree) {
        *lock(&self.0.tree) = t;
    }

    pub fn write(&self, id: &str, ext: &str, content: &[u8]) -> Change {
        let mut t = lock(&self.0.tree);
        t.ensure_dirs(id);
        let new: Arc<[u8]> = Arc::from(content);
        match t.files.insert((id.to_string(), ext.to_string()), new) {
            None => Change::Created,
            Some(old) if &*old == content => Change::Unchanged,
            Some(_) => Change::Modified,
        }
    }

    pub fn remove_file(&self, id: &str, ext: &str) -> Change {
        match lock(&self.0.tree)
            .files
            .remove(&(id.to_string(), ext.to_string()))
        {
            Some(_) => Change::Removed,
            None => Change::Unchanged,
        }
    }

    pub fn mkdir(&self, id: &str) -> Change {
        let mut t = lock(&self.0.tree);
        t.ensure_dirs(id);
        if id.is_empty() || !t.dirs.insert(id.to_string()) {
            Change::Unchanged
        } else {
            Change::Created
        }
    }

    /// Removes a directory and everything below it; returns the removed entries.
    pub fn rmdir(&self, id: &str) -> Vec<OwnedDirEntry> {
        let mut t = lock(&self.0.tree);
        let mut removed = vec![];
        let prefix = format!("{id}.");
        let files: Vec<_> = t
            .files
            .keys()
            .filter(|(f, _)| f.starts_with(&prefix))
            .cloned()
            .collect();
        for k in files {
            t.files.remove(&k);
            removed.push(OwnedDirEntry::File(k.0.as_str().into(), k.1.as_str().into()));
        }
        let dirs: Vec<_> = t
            .dirs
            .iter()
            .filter(|d| *d == id || d.starts_with(&prefix))
            .cloned()
            .collect();
        for d in dirs {
            t.dirs.remove(&d);
            removed.push(OwnedDirEntry::Directory(d.as_str().into()));
        }
        removed
    }

    pub fn get(&self, id: &str, ext: &str) -> Option<Arc<[u8]>> {
        lock(&self.0.tree)
            .files
            .get(&(id.to_string(), ext.to_string()))
            .cloned()
    }

    // ------------------------------------------------------------ notifications

    pub fn has_sender(&self) -> bool {
        lock(&self.0.sender).is_some()
    }

    /// Takes the sender out of the source (used with `Hot::SenderToHarness`).
    pub fn take_sender(&self) -> Option<EventSender> {
        lock(&self.0.sender).take()
    }

    /// Messages successfully sent so far (one per `send` / non-empty `send_multiple`).
    pub fn sent(&self) -> usize {
        self.0.sent.load(SeqCst)
    }

    pub fn notify(&self, e: OwnedDirEntry) -> bool {
        let g = lock(&self.0.sender);
        match &*g {
            Some(s) => {
                let ok = s.send(e).is_ok();
                if ok {
                    self.0.sent.fetch_add(1, SeqCst);
                }
                ok
            }
            None => false,
        }
    }

    pub fn notify_batch(&self, es: Vec<OwnedDirEntry>) -> bool {
        if es.is_empty() {
            return true;
        }
        let g = lock(&self.0.sender);
        match &*g {
            Some(s) => {
                // every other batch goes through an iterator that gives no upper size bound
                let n = es.len();
                let r = if self.0.sent.load(SeqCst) % 2 == 0 {
                    let mut it = es.into_iter();
                    s.send_multiple(std::iter::from_fn(move || it.next()))
                } else {
                    s.send_multiple(es)
                };
                // "If successful, this function returns the number of events sent"
                if let Ok(k) = r {
                    if k != n {
                        self.0.miscounted.fetch_add(1, SeqCst);
                        return false;
                    }
                }
                let ok = r.is_ok();
                if ok {
                    self.0.sent.fetch_add(1, SeqCst);
                }
                ok
            }
            None => false,
        }
    }

    /// Number of batches whose `send_multiple` reported a wrong event count.
    pub fn miscounted(&self) -> u64 {
        self.0.miscounted.load(SeqCst)
    }

    pub fn notify_file(&self, id: &str, ext: &str) -> bool {
        self.notify(OwnedDirEntry::File(id.into(), ext.into()))
    }

    pub fn notify_dir(&self, id: &str) -> bool {
        self.notify(OwnedDirEntry::Directory(id.into()))
    }

    // ------------------------------------------------------------ read log

    pub fn set_logging(&self, on: bool) {
        self.0.log_on.store(on, SeqCst);
    }

    pub fn take_log(&self) -> Vec<ReadEv> {
        std::mem::take(&mut *lock(&self.0.log))
    }

    pub fn log_len(&self) -> usize {
        lock(&self.0.log).len()
    }

    fn log(&self, op: Op, id: &str, ext: &str, err: Option<io::ErrorKind>, injected: bool) {
        if self.0.log_on.load(SeqCst) {
            let ev = ReadEv {
                seq: tick(),
                thread: thread_no(),
                reloader: on_reloader_thread(),
                op,
                id: id.to_string(),
                ext: ext.to_string(),
                err,
                injected,
            };
            lock(&self.0.log).push(ev);
        }
    }

    // ------------------------------------------------------------ faults

    pub fn add_fault(&self, key: FaultKey, kind: io::ErrorKind) {
        lock(&self.0.faults).rules.push((key, kind));
    }

    pub fn clear_faults(&self) {
        let mut f = lock(&self.0.faults);
        f.rules.clear();
    }

    /// Restarts the per-read / per-entry occurrence counters.
    pub fn reset_fault_counters(&self) {
        let mut f = lock(&self.0.faults);
        f.nth = 0;
        f.per_key.clear();
    }

    pub fn take_fired(&self) -> Vec<(FaultKey, io::ErrorKind, u64)> {
        std::mem::take(&mut lock(&self.0.faults).fired)
    }

    pub fn reads_counted(&self) -> usize {
        lock(&self.0.faults).nth
    }

    // ------------------------------------------------------------ content form

    /// 0 = Buffer, 1 = Slice, 2 = Owned, 3 = rotate on every read
    pub fn set_content_mode(&self, m: u8) {
        self.0.content_mode.store(m, SeqCst);
    }

    fn serve(&self, data: Arc<[u8]>) -> FileContent<'_> {
        let mut m = self.0.content_mode.load(SeqCst);
        if m == 3 {
            m = (self.0.rot.fetch_add(1, SeqCst) % 3) as u8;
        }
        match m {
            0 => FileContent::Buffer(data.to_vec()),
            1 => {
                // Keep the bytes alive for as long as this source lives and
                // hand out a slice borrowed from `self`.
                let ptr: *const [u8] = &*data;
                lock(&self.0.arena).push(data);
                // SAFETY: the arena never drops an element before `Inner`
                // itself is dropped, and the returned borrow is tied to
                // `&self`, which keeps `Inner` alive.
                FileContent::Slice(unsafe { &*ptr })
            }
            _ => FileContent::from_owned(data),
        }
    }
}

impl Source for Mem {
    fn read(&self, id: &str, ext: &str) -> io::Result<FileContent<'_>> {
        if let Some(kind) = lock(&self.0.faults).check(id, ext, false) {
            self.log(Op::Read, id, ext, Some(kind), true);
            return Err(io::Error::new(kind, "vh: injected read fault"));
        }
        let data = lock(&self.0.tree)
            .files
            .get(&(id.to_string(), ext.to_string()))
            .cloned();
        match data {
            Some(d) => {
                self.log(Op::Read, id, ext, None, false);
                Ok(self.serve(d))
            }
            None => {
                self.log(Op::Read, id, ext, Some(io::ErrorKind::NotFound), false);
                Err(io::Error::new(io::ErrorKind::NotFound, "vh: no such file"))
            }
        }
    }

    fn read_dir(&self, id: &str, f: &mut dyn FnMut(DirEntry)) -> io::Result<()> {
        if let Some(kind) = lock(&self.0.faults).check(id, "", true) {
            self.log(Op::ReadDir, id, "", Some(kind), true);
            return Err(io::Error::new(kind, "vh: injected read_dir fault"));
        }
        let ch = lock(&self.0.tree).children(id);
        match ch {
            Some((files, dirs)) => {
                self.log(Op::ReadDir, id, "", None, false);
                for (fid, ext) in &files {
                    f(DirEntry::File(fid, ext));
                }
                for d in &dirs {
                    f(DirEntry::Directory(d));
                }
                Ok(())
            }
            None => {
                self.log(Op::ReadDir, id, "", Some(io::ErrorKind::NotFound), false);
                Err(io::Error::new(io::ErrorKind::NotFound, "vh: no such directory"))
            }
        }
    }

    fn exists(&self, entry: DirEntry) -> bool {
        let t = lock(&self.0.tree);
        match entry {
            DirEntry::File(id, ext) => t.files.contains_key(&(id.to_string(), ext.to_string())),
            DirEntry::Directory(id) => t.dir_exists(id),
        }
    }

    fn make_source(&self) -> Option<Box<dyn Source + Send>> {
        match self.0.hot {
            Hot::No => None,
            _ => {
                self.0.clones.fetch_add(1, SeqCst);
                Some(Box::new(self.clone()))
            }
        }
    }

    fn configure_hot_reloading(&self, events: EventSender) -> Result<(), BoxedError> {
        match self.0.hot {
            Hot::Yes | Hot::SenderToHarness => {
                *lock(&self.0.sender) = Some(events);
                Ok(())
            }
            Hot::ConfigureFails => {
                // like a source that had already handed the sender to a first watcher when a
                // second one failed to start: the sender is kept, the configuration is refused
                *lock(&self.0.sender) = Some(events);
                Err("vh: configure_hot_reloading refused".into())
            }
            Hot::No => Err("vh: not hot".into()),
        }
    }
}

/// Wraps any source with the same fault plan (used on FileSystem/Zip/Tar/Embedded).
pub struct Faulty<S> {
    pub inner: S,
    deny_dirs: Mutex<BTreeSet<String>>,
    deny_files: Mutex<BTreeSet<(String, String)>>,
    /// (directory id, reads still allowed before the one that fails)
    deny_dir_nth: Mutex<Option<(String, usize)>>,
    pub denied: AtomicUsize,
}

impl<S> Faulty<S> {
    pub fn new(inner: S) -> Self {
        Faulty {
            inner,
            deny_dirs: Mutex::new(BTreeSet::new()),
            deny_files: Mutex::new(BTreeSet::new()),
            deny_dir_nth: Mutex::new(None),
            denied: AtomicUsize::new(0),
        }
    }
    /// Only the `n`-th (0-based) `read_dir` of `id` from now on fails.
    pub fn deny_dir_read(&self, id: &str, n: usize) {
        *lock(&self.deny_dir_nth) = Some((id.to_string(), n));
    }
    pub fn deny_dir(&self, id: &str) {
        lock(&self.deny_dirs).insert(id.to_string());
    }
    pub fn deny_file(&self, id: &str, ext: &str) {
        lock(&self.deny_files).insert((id.to_string(), ext.to_string()));
    }
    pub fn clear(&self) {
        lock(&self.deny_dirs).clear();
        lock(&self.deny_files).clear();
        *lock(&self.deny_dir_nth) = None;
    }
}

impl<S: Source> Source for Faulty<S> {
    fn read(&self, id: &str, ext: &str) -> io::Result<FileContent<'_>> {
        if lock(&self.deny_files).contains(&(id.to_string(), ext.to_string())) {
            self.denied.fetch_add(1, SeqCst);
            return Err(io::Error::new(io::ErrorKind::PermissionDenied, "vh: denied"));
        }
        self.inner.read(id, ext)
    }
    fn read_dir(&self, id: &str, f: &mut dyn FnMut(DirEntry)) -> io::Result<()> {
        if lock(&self.deny_dirs).contains(id) {
            self.denied.fetch_add(1, SeqCst);
            return Err(io::Error::new(io::ErrorKind::PermissionDenied, "vh: denied"));
        }
        {
            let mut g = lock(&self.deny_dir_nth);
            if let Some((d, n)) = g.as_mut() {
                if d == id {
                    if *n == 0 {
                        *g = None;
                        self.denied.fetch_add(1, SeqCst);
                        return Err(io::Error::new(io::ErrorKind::PermissionDenied, "vh: denied (this read only)"));
                    }
                    *n -= 1;
                }
            }
        }
        self.inner.read_dir(id, f)
    }
    fn exists(&self, entry: DirEntry) -> bool {
        self.inner.exists(entry)
    }
}
