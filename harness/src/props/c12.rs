//! C12 — filesystem notifications name the right entries (inverse of path_of).

use crate::rng::{fnv_str, mix, Rng};
use crate::trees::{gen_tree, write_to_disk};
use crate::{Args, Report};
use assets_manager::hot_reloading::verif::{event_channel, id_of_path, EventReceiver, Handler};
use assets_manager::hot_reloading::FsWatcherBuilder;
use assets_manager::source::{DirEntry, FileSystem, OwnedDirEntry};
use notify::event::{AccessKind, CreateKind, DataChange, MetadataKind, ModifyKind, RemoveKind, RenameMode};
use notify::{Event, EventKind};
use serde_json::{json, Value};
use std::collections::BTreeSet;
use std::path::{Path, PathBuf};
use std::time::Duration;

type Ent = (bool, String, String); // (is_dir, id, ext)

fn ent(e: &OwnedDirEntry) -> Ent {
    match e {
        OwnedDirEntry::File(i, x) => (false, i.to_string(), x.to_string()),
        OwnedDirEntry::Directory(i) => (true, i.to_string(), String::new()),
    }
}

fn show(e: &Ent) -> String {
    if e.0 {
        format!("dir:{:?}", e.1)
    } else {
        format!("file:{:?}.{:?}", e.1, e.2)
    }
}

fn kinds() -> Vec<(&'static str, EventKind)> {
    vec![
        ("create-file", EventKind::Create(CreateKind::File)),
        ("create-folder", EventKind::Create(CreateKind::Folder)),
        ("create-any", EventKind::Create(CreateKind::Any)),
        ("modify-data", EventKind::Modify(ModifyKind::Data(DataChange::Content))),
        ("modify-metadata", EventKind::Modify(ModifyKind::Metadata(MetadataKind::WriteTime))),
        ("modify-any", EventKind::Modify(ModifyKind::Any)),
        ("rename-from", EventKind::Modify(ModifyKind::Name(RenameMode::From))),
        ("rename-to", EventKind::Modify(ModifyKind::Name(RenameMode::To))),
        ("rename-both", EventKind::Modify(ModifyKind::Name(RenameMode::Both))),
        ("rename-any", EventKind::Modify(ModifyKind::Name(RenameMode::Any))),
        ("remove-file", EventKind::Remove(RemoveKind::File)),
        ("remove-folder", EventKind::Remove(RemoveKind::Folder)),
        ("remove-any", EventKind::Remove(RemoveKind::Any)),
        ("any", EventKind::Any),
        ("access", EventKind::Access(AccessKind::Read)),
        ("other", EventKind::Other),
    ]
}

/// The entry a path denotes under `root`, by inverting `path_of`:
/// `None` when the path is outside the root or not expressible as an id.
fn entry_of(root: &Path, path: &Path, is_dir: bool) -> Option<Ent> {
    let rel = path.strip_prefix(root).ok()?;
    let comps: Vec<String> = rel
        .components()
        .map(|c| match c {
            std::path::Component::Normal(s) => s.to_str().map(|s| s.to_string()),
            _ => None,
        })
        .collect::<Option<Vec<_>>>()?;
    if comps.is_empty() {
        return Some((true, String::new(), String::new()));
    }
    let (last, dirs) = comps.split_last().unwrap();
    if dirs.iter().any(|d| d.contains('.')) {
        return None;
    }
    let (stem, ext) = if is_dir {
        (last.as_str(), "")
    } else {
        match last.rfind('.') {
            Some(i) if i > 0 => (&last[..i], &last[i + 1..]),
            _ => (last.as_str(), ""),
        }
    };
    if stem.contains('.') || stem.is_empty() {
        return None;
    }
    let mut id = dirs.join(".");
    if !id.is_empty() {
        id.push('.');
    }
    id.push_str(stem);
    Some((is_dir, id, ext.to_string()))
}

fn parent_of(e: &Ent) -> Option<Ent> {
    if e.1.is_empty() {
        return None;
    }
    let p = crate::mem::parent_of(&e.1).unwrap_or("").to_string();
    Some((true, p, String::new()))
}

/// Lexical normalisation of `.` and `..`.
fn normalise(p: &Path) -> PathBuf {
    let mut out = PathBuf::new();
    for c in p.components() {
        match c {
            std::path::Component::CurDir => {}
            std::path::Component::ParentDir => {
                out.pop();
            }
            other => out.push(other.as_os_str()),
        }
    }
    out
}

struct Expect {
    /// entries that must be named
    required: BTreeSet<Ent>,
    /// entries that may be named in addition (kind unknowable, or kinds outside the statement)
    allowed: BTreeSet<Ent>,
    /// the kind of the (vanished) path is unknowable: at least one of these must be named
    either: BTreeSet<Ent>,
}

fn expectation(roots: &[PathBuf], path: &Path, kname: &str, exists_as_dir: Option<bool>) -> Expect {
    let mut required = BTreeSet::new();
    let mut allowed = BTreeSet::new();
    let mut either = BTreeSet::new();
    let p = normalise(path);
    for r in roots {
        // relative components are only meaningful below the watched root: a
        // spelling that leaves the root and comes back is not something a
        // watcher reports
        match path.strip_prefix(r) {
            Err(_) => continue,
            Ok(rel) => {
                let mut depth = 0i32;
                let mut leaves = false;
                for c in rel.components() {
                    match c {
                        std::path::Component::ParentDir => depth -= 1,
                        std::path::Component::Normal(_) => depth += 1,
                        _ => {}
                    }
                    if depth < 0 {
                        leaves = true;
                    }
                }
                if leaves {
                    continue;
                }
            }
        }
        let contradicts = matches!((kname, exists_as_dir), ("remove-folder", Some(false)) | ("remove-file", Some(true)));
        let candidates: Vec<(Ent, bool)> = match exists_as_dir {
            // a removal event for a path that still exists with the other kind
            // (only synthetic input can do that): either reading is accepted
            Some(_) if contradicts => entry_of(r, &p, false)
                .into_iter()
                .chain(entry_of(r, &p, true))
                .map(|e| (e, false))
                .collect(),
            // the path exists: its kind is known
            Some(d) => entry_of(r, &p, d).into_iter().map(|e| (e, true)).collect(),
            // the path has vanished: the event may or may not say what it was
            None => match kname {
                "remove-folder" => entry_of(r, &p, true).into_iter().map(|e| (e, true)).collect(),
                "remove-file" => entry_of(r, &p, false).into_iter().map(|e| (e, true)).collect(),
                _ => entry_of(r, &p, false)
                    .into_iter()
                    .chain(entry_of(r, &p, true))
                    .map(|e| (e, false))
                    .collect(),
            },
        };
        let needs_parent = kname.starts_with("create") || kname.starts_with("rename") || kname.starts_with("remove");
        // a removal event whose kind contradicts what is on disk cannot happen for real
        let judged = !matches!(kname, "any" | "access" | "other") && !contradicts;
        let mut any_required = false;
        for (e, certain) in &candidates {
            if judged && *certain {
                required.insert(e.clone());
                any_required = true;
            }
            allowed.insert(e.clone());
            if let Some(par) = parent_of(e) {
                if judged && needs_parent {
                    required.insert(par.clone());
                }
                allowed.insert(par);
            }
        }
        // kind unknowable: at least one of the two candidates must be named
        if judged && !any_required {
            either.extend(candidates.iter().map(|c| c.0.clone()));
        }
    }
    Expect { required, allowed, either }
}

fn drain(rx: &EventReceiver) -> BTreeSet<Ent> {
    let mut got = BTreeSet::new();
    while let Some(msg) = rx.try_recv() {
        for e in msg {
            got.insert(ent(&e));
        }
    }
    got
}

fn judge(rep: &mut Report, got: &BTreeSet<Ent>, exp: &Expect, kname: &str, place: &str, scen: &Value, kind_unknown: bool) {
    let missing: Vec<String> = exp.required.difference(got).map(show).collect();
    let extra: Vec<String> = got.difference(&exp.allowed).map(show).collect();
    let family = kname.split('-').next().unwrap_or(kname);
    if !missing.is_empty() {
        // which part is missing decides the signature
        let what = if exp.required.difference(got).any(|e| e.0 && e.1.is_empty()) {
            "root-directory-not-named"
        } else if exp.required.difference(got).all(|e| e.0) && exp.required.iter().any(|e| got.contains(e)) {
            "parent-not-named"
        } else {
            "entry-not-named"
        };
        rep.violation(
            what,
            &format!("C12/{family}:{place}:{what}"),
            json!({"missing": missing, "delivered": got.iter().map(show).collect::<Vec<_>>()}),
            scen.clone(),
        );
    }
    let _ = kind_unknown;
    if !exp.either.is_empty() && exp.either.iter().all(|e| !got.contains(e)) {
        rep.violation(
            "entry-not-named",
            &format!("C12/{family}:{place}:entry-not-named"),
            json!({"accepted_either": exp.either.iter().map(show).collect::<Vec<_>>(), "delivered": got.iter().map(show).collect::<Vec<_>>()}),
            scen.clone(),
        );
    }
    if !extra.is_empty() {
        rep.violation(
            "unexpected-entry-named",
            &format!("C12/{family}:{place}:unexpected-entry-named"),
            json!({"unexpected": extra, "delivered": got.iter().map(show).collect::<Vec<_>>()}),
            scen.clone(),
        );
    }
}

fn place_of(root: &Path, path: &Path) -> &'static str {
    let p = normalise(path);
    match p.strip_prefix(root) {
        Ok(rel) => match rel.components().count() {
            0 => "root",
            1 => "top-level",
            _ => "nested",
        },
        Err(_) => "outside",
    }
}

/// (a) synthetic events fed to the real handler.
fn synthetic(rep: &mut Report, rng: &mut Rng, ntrees: usize, base_index: usize) {
    for ti in 0..ntrees {
        let t = gen_tree(rng, base_index + ti);
        let dir = crate::util::scratch_dir("c12s");
        let root1 = dir.join("r1");
        let root2 = dir.join("r2");
        write_to_disk(&t, &root1);
        write_to_disk(&t, &root2.join("sub"));
        std::fs::create_dir_all(dir.join("outside")).unwrap();
        std::fs::write(dir.join("outside/x.a"), b"x").unwrap();
        let root1 = root1.canonicalize().unwrap();
        let root2 = root2.canonicalize().unwrap();
        // third configuration: two overlapping roots (a directory of the tree is watched as a root of its own)
        let inner_root = t.dirs.iter().find(|d| !d.contains('/')).map(|d| root1.join(d));
        for config in 0..3 {
            let two_roots = config == 1;
            let roots = match config {
                0 => vec![root1.clone()],
                1 => vec![root1.clone(), root2.clone()],
                _ => match &inner_root {
                    Some(r) => {
                        if rep.evaluations % 2 == 0 {
                            vec![root1.clone(), r.clone()]
                        } else {
                            vec![r.clone(), root1.clone()]
                        }
                    }
                    None => continue,
                },
            };
            if config == 2 {
                rep.count("overlapping_root_configurations", 1);
            }
            let (tx, rx) = event_channel();
            let mut handler = Handler::new(roots.clone(), tx);
            // paths: existing entries of the tree, the root itself, vanished and invalid ones
            let mut paths: Vec<(PathBuf, Option<bool>, &'static str)> = vec![(root1.clone(), Some(true), "existing")];
            for d in &t.dirs {
                paths.push((root1.join(d), Some(true), "existing"));
            }
            for f in t.files.keys() {
                paths.push((root1.join(f), Some(false), "existing"));
            }
            if two_roots {
                paths.push((root2.clone(), Some(true), "existing"));
                for f in t.files.keys().take(3) {
                    paths.push((root2.join("sub").join(f), Some(false), "existing"));
                }
            }
            paths.push((root1.join("vanished.a"), None, "vanished"));
            paths.push((root1.join("gone-dir"), None, "vanished"));
            if let Some(d) = t.dirs.iter().next() {
                paths.push((root1.join(d).join("vanished-nested.txt"), None, "vanished"));
            }
            paths.push((dir.join("outside/x.a"), Some(false), "outside"));
            // names that cannot be expressed as ids (they exist on disk)
            let _ = std::fs::create_dir_all(root1.join("bad.dir"));
            let _ = std::fs::write(root1.join("bad.dir/x.a"), b"x");
            let _ = std::fs::write(root1.join("bad.name.a"), b"x");
            paths.push((root1.join("bad.name.a"), Some(false), "invalid"));
            paths.push((root1.join("bad.dir/x.a"), Some(false), "invalid"));
            paths.push((root1.join("bad.dir"), Some(true), "invalid"));
            // hidden files: a leading dot and no other one
            let _ = std::fs::write(root1.join(".x"), b"x");
            paths.push((root1.join(".x"), Some(false), "invalid"));
            if let Some(d) = t.dirs.iter().next() {
                let _ = std::fs::write(root1.join(d).join(".gitignore"), b"x");
                paths.push((root1.join(d).join(".gitignore"), Some(false), "invalid"));
            }
            // spellings with relative components
            let mut spelled = vec![];
            for (p, k, c) in paths.iter().filter(|(p, _, _)| *p != root1 && *p != root2).take(8) {
                if let (Some(parent), Some(name)) = (p.parent(), p.file_name()) {
                    spelled.push((parent.join(".").join(name), *k, *c));
                    // through an existing sibling directory and back
                    let sibling = std::fs::read_dir(parent)
                        .ok()
                        .and_then(|rd| rd.flatten().map(|e| e.path()).find(|q| q.is_dir()));
                    if let Some(sib) = sibling {
                        spelled.push((sib.join("..").join(name), *k, *c));
                    }
                }
            }
            paths.extend(spelled);
            for (path, exists_as_dir, class) in &paths {
                for (kname, kind) in kinds() {
                    rep.eval();
                    let ev = Event::new(kind).add_path(path.clone());
                    let before = crate::util::panics_seen();
                    handler.handle_event(Ok(ev));
                    let got = drain(&rx);
                    let exp = expectation(&roots, path, kname, *exists_as_dir);
                    let place = if *class == "existing" || *class == "vanished" {
                        match place_of(&root1, path) {
                            "outside" => place_of(&root2, path),
                            p => p,
                        }
                    } else {
                        class
                    };
                    let scen = json!({"kind": "synthetic", "event": kname, "path": path.strip_prefix(&dir).unwrap_or(path).to_string_lossy(),
                        "path_class": class, "exists_as_dir": exists_as_dir, "roots": roots.len(), "tree_index": base_index + ti});
                    judge(rep, &got, &exp, kname, place, &scen, exists_as_dir.is_none() && *class == "vanished");
                    if crate::util::panics_seen() != before {
                        rep.violation("handler-panicked", "C12/handler-panicked", json!({}), scen.clone());
                    }
                    rep.seen("event_kinds", kname);
                    rep.seen("path_classes", &format!("{class}:{place}"));
                    if !exp.required.is_empty() {
                        rep.nontrivial(mix(fnv_str(kname), fnv_str(&path.to_string_lossy())));
                    }
                }
            }
            // errors from notify must not stop the handler
            handler.handle_event(Err(notify::Error::generic("vh: injected notify error")));
            handler.handle_event(Ok(Event::new(EventKind::Modify(ModifyKind::Any)).add_path(root1.join(t.files.keys().next().cloned().unwrap_or_else(|| "nothing.a".into())))));
            if !t.files.is_empty() && drain(&rx).is_empty() {
                rep.violation("handler-stopped", "C12/handler-stopped-after-error", json!({}), json!({"kind": "synthetic", "tree_index": base_index + ti}));
            }
        }
        // the watched root itself goes away (renamed, removed): notifications about it still name
        // the root directory, whatever their kind says
        {
            let (tx, rx) = event_channel();
            let roots = vec![root1.clone()];
            let mut handler = Handler::new(roots.clone(), tx);
            let _ = std::fs::remove_dir_all(&root1);
            for (kname, kind) in kinds() {
                rep.eval();
                handler.handle_event(Ok(Event::new(kind).add_path(root1.clone())));
                let got = drain(&rx);
                let exp = expectation(&roots, &root1, kname, None);
                let scen = json!({"kind": "synthetic", "event": kname, "path": "<the watched root, which no longer exists>",
                    "path_class": "vanished-root", "tree_index": base_index + ti});
                judge(rep, &got, &exp, kname, "root", &scen, false);
                rep.count("vanished_root_events", 1);
            }
        }
        if rep.samples.len() < 2 {
            rep.sample(json!({"kind": "synthetic", "tree": t.describe(), "event_kinds": kinds().iter().map(|k| k.0).collect::<Vec<_>>()}));
        }
        let _ = std::fs::remove_dir_all(dir);
    }
}

/// (c) ids and paths round-trip; path_of is injective per kind.
fn round_trip(rep: &mut Report, rng: &mut Rng) {
    let dir = crate::util::scratch_dir("c12r");
    let root = dir.canonicalize().unwrap();
    let fs = FileSystem::new(&root).unwrap();
    let names = ["a", "b7", "é", "with space", "UPPER", "x-y"];
    let exts = ["", "a", "txt", "m1"];
    // all directory ids up to depth 3 (created on disk so that their kind is observable)
    let mut dirs: Vec<String> = vec![String::new()];
    let mut frontier = vec![String::new()];
    for _ in 0..3 {
        let mut next = vec![];
        for p in &frontier {
            for n in names.iter().take(3) {
                let id = if p.is_empty() { n.to_string() } else { format!("{p}.{n}") };
                next.push(id);
            }
        }
        dirs.extend(next.iter().cloned());
        frontier = next;
    }
    let mut seen_paths: std::collections::BTreeMap<PathBuf, Ent> = Default::default();
    for d in &dirs {
        rep.eval();
        let p = fs.path_of(DirEntry::Directory(d));
        std::fs::create_dir_all(&p).unwrap();
        let back = id_of_path(&root, &p).map(|e| ent(&e));
        let want = (true, d.clone(), String::new());
        if back != Some(want.clone()) {
            let place = if d.is_empty() { "root" } else if d.contains('.') { "nested" } else { "top-level" };
            rep.violation(
                "round-trip",
                &format!("C12/round-trip:{place}:directory"),
                json!({"entry": show(&want), "path": p.strip_prefix(&root).unwrap_or(&p).to_string_lossy(), "id_of_path": back.as_ref().map(show)}),
                json!({"kind": "round-trip", "entry": show(&want)}),
            );
        }
        if let Some(prev) = seen_paths.insert(p.clone(), want.clone()) {
            rep.violation("not-injective", "C12/path-of-not-injective", json!({"a": show(&prev), "b": show(&want)}), json!({"kind": "round-trip"}));
        }
        rep.nontrivial(mix(0xd1, fnv_str(d)));
    }
    let mut file_paths: std::collections::BTreeMap<PathBuf, Ent> = Default::default();
    for d in dirs.iter().filter(|d| d.matches('.').count() < 2) {
        for n in names {
            for x in exts {
                // a file cannot have the name of an existing directory
                let id = if d.is_empty() { n.to_string() } else { format!("{d}.{n}") };
                if x.is_empty() && dirs.contains(&id) {
                    continue;
                }
                rep.eval();
                let p = fs.path_of(DirEntry::File(&id, x));
                let exists = rng.chance(1, 3);
                if exists {
                    std::fs::write(&p, b"x").unwrap();
                }
                let back = id_of_path(&root, &p).map(|e| ent(&e));
                let want = (false, id.clone(), x.to_string());
                if back != Some(want.clone()) {
                    rep.violation(
                        "round-trip",
                        &format!("C12/round-trip:{}:file", if id.contains('.') { "nested" } else { "top-level" }),
                        json!({"entry": show(&want), "exists": exists, "id_of_path": back.as_ref().map(show)}),
                        json!({"kind": "round-trip", "entry": show(&want)}),
                    );
                }
                if let Some(prev) = file_paths.insert(p, want.clone()) {
                    rep.violation("not-injective", "C12/path-of-not-injective", json!({"a": show(&prev), "b": show(&want)}), json!({"kind": "round-trip"}));
                }
                rep.nontrivial(mix(0xf1, fnv_str(&format!("{id}.{x}"))));
            }
        }
    }
    rep.count("round_trip_entries", (seen_paths.len() + file_paths.len()) as u64);
    let _ = std::fs::remove_dir_all(dir);
}

#[derive(Clone, Debug)]
enum FsOp {
    CreateFile(String),
    Modify(String),
    DeleteFile(String),
    Mkdir(String),
    Rmdir(String),
    Rename(String, String),
    /// a symbolic link to an existing directory: the notification says "not a directory", the
    /// source (which follows links) shows a directory
    SymlinkDir(String),
    /// a symbolic link to an existing file
    SymlinkFile(String),
}

/// (b) real histories on a temporary directory through the real watcher.
fn real_histories(rep: &mut Report, rng: &mut Rng, n: usize) {
    for h in 0..n {
        rep.eval();
        let dir = crate::util::scratch_dir("c12w");
        let root = dir.canonicalize().unwrap();
        std::fs::create_dir_all(root.join("d1/d2")).unwrap();
        std::fs::write(root.join("top.a"), b"0").unwrap();
        std::fs::write(root.join("d1/mid.txt"), b"0").unwrap();
        std::fs::write(root.join("d1/d2/deep.a"), b"0").unwrap();
        std::fs::write(root.join("d1/noext"), b"0").unwrap();
        // A second, canonical root that only ever holds the sentinel files: both roots are watched by one
        // inotify instance, whose queue is FIFO, so a delivered sentinel proves that every earlier
        // notification of the history went through the handler (logical barrier, also for a root
        // whose notifications are all lost).
        // ... and its spelling continues the spelling of the root ("<root>_ctl"): a sibling, not a child
        let ctl_dir = root.with_file_name(format!("{}_ctl", root.file_name().unwrap().to_str().unwrap()));
        let _ = std::fs::remove_dir_all(&ctl_dir);
        std::fs::create_dir_all(&ctl_dir).unwrap();
        let ctl = ctl_dir.canonicalize().unwrap();
        // how the root is spelled when handed to `watch`
        let spelling = ["canonical", "relative", "dot-relative", "symlink", "dotdot"][if h % 2 == 0 { 0 } else { (h / 2) % 5 }];
        let old_cwd = std::env::current_dir().unwrap();
        let link = dir.with_extension("lnk");
        let given: PathBuf = match spelling {
            "relative" | "dot-relative" => {
                std::env::set_current_dir(root.parent().unwrap()).unwrap();
                let name = PathBuf::from(root.file_name().unwrap());
                if spelling == "relative" { name } else { Path::new(".").join(name) }
            }
            "symlink" => {
                let _ = std::fs::remove_file(&link);
                std::os::unix::fs::symlink(&root, &link).unwrap();
                link.clone()
            }
            "dotdot" => root.join("d1").join("..") ,
            _ => root.clone(),
        };
        rep.seen("root_spellings", spelling);
        let (tx, rx) = event_channel();
        let mut b = match FsWatcherBuilder::new() {
            Ok(b) => b,
            Err(e) => {
                rep.inconclusive(&format!("cannot create a filesystem watcher: {e}"));
                return;
            }
        };
        let order = rng.chance(1, 2);
        for first in [order, !order] {
            let w = if first { given.clone() } else { ctl.clone() };
            if let Err(e) = b.watch(w) {
                rep.inconclusive(&format!("cannot watch the scratch directory: {e}"));
                let _ = std::env::set_current_dir(&old_cwd);
                return;
            }
        }
        b.build(tx);
        let nops = rng.range(1, 5);
        let mut ops = vec![];
        let mut files: Vec<String> = vec!["top.a".into(), "d1/mid.txt".into(), "d1/d2/deep.a".into(), "d1/noext".into()];
        let mut dirs: Vec<String> = vec!["d1".into(), "d1/d2".into()];
        let mut links: Vec<String> = vec![];
        let mut counter = 0;
        for _ in 0..nops {
            counter += 1;
            let parent = if rng.chance(1, 3) { String::new() } else { rng.pick(&dirs).clone() };
            let j = |n: &str| if parent.is_empty() { n.to_string() } else { format!("{parent}/{n}") };
            let op = match rng.below(7) {
                6 => {
                    let p = j(&format!("lnk{counter}"));
                    links.push(p.clone());
                    if rng.chance(1, 2) {
                        FsOp::SymlinkDir(p)
                    } else {
                        FsOp::SymlinkFile(format!("{p}.a"))
                    }
                }
                0 => {
                    let p = j(&format!("new{counter}.a"));
                    files.push(p.clone());
                    FsOp::CreateFile(p)
                }
                1 => FsOp::Modify(rng.pick(&files).clone()),
                2 if files.len() > 1 => {
                    let i = rng.below(files.len());
                    FsOp::DeleteFile(files.remove(i))
                }
                3 => {
                    let p = j(&format!("nd{counter}"));
                    dirs.push(p.clone());
                    FsOp::Mkdir(p)
                }
                4 => {
                    let i = rng.below(files.len());
                    let from = files[i].clone();
                    let to = j(&format!("moved{counter}.a"));
                    files[i] = to.clone();
                    FsOp::Rename(from, to)
                }
                _ => {
                    // remove an empty directory created earlier in this history
                    let empty = dirs.iter().position(|d| {
                        d.rsplit('/').next().is_some_and(|n| n.starts_with("nd"))
                            && !files.iter().any(|f| f.starts_with(&format!("{d}/")))
                            && !links.iter().any(|f| f.starts_with(&format!("{d}/")))
                            && !dirs.iter().any(|o| o.starts_with(&format!("{d}/")))
                    });
                    match empty {
                        Some(i) => FsOp::Rmdir(dirs.remove(i)),
                        None => FsOp::Modify(rng.pick(&files).clone()),
                    }
                }
            };
            ops.push(op);
        }
        // perform, each followed by a sentinel so that deliveries can be attributed
        let mut all_ok = true;
        for (k, op) in ops.iter().enumerate() {
            let mut required: BTreeSet<Ent> = BTreeSet::new();
            let mut allowed: BTreeSet<Ent> = BTreeSet::new();
            let mut add = |required: &mut BTreeSet<Ent>, allowed: &mut BTreeSet<Ent>, rel: &str, is_dir: Option<bool>, need_parent: bool| {
                let p = root.join(rel);
                let cands: Vec<Ent> = match is_dir {
                    Some(d) => entry_of(&root, &p, d).into_iter().collect(),
                    None => entry_of(&root, &p, false).into_iter().chain(entry_of(&root, &p, true)).collect(),
                };
                for e in cands {
                    if is_dir.is_some() {
                        required.insert(e.clone());
                    }
                    allowed.insert(e.clone());
                    if let Some(par) = parent_of(&e) {
                        if need_parent {
                            required.insert(par.clone());
                        }
                        allowed.insert(par);
                    }
                }
            };
            let family;
            match op {
                FsOp::CreateFile(p) => {
                    std::fs::write(root.join(p), b"new").unwrap();
                    add(&mut required, &mut allowed, p, Some(false), true);
                    family = "create";
                }
                FsOp::Modify(p) => {
                    std::fs::write(root.join(p), format!("m{k}")).unwrap();
                    add(&mut required, &mut allowed, p, Some(false), false);
                    // truncating rewrites may be reported as create-like events by some backends
                    if let Some(par) = entry_of(&root, &root.join(p), false).and_then(|e| parent_of(&e)) {
                        allowed.insert(par);
                    }
                    family = "modify";
                }
                FsOp::DeleteFile(p) => {
                    std::fs::remove_file(root.join(p)).unwrap();
                    add(&mut required, &mut allowed, p, Some(false), true);
                    family = "remove";
                }
                FsOp::Mkdir(p) => {
                    std::fs::create_dir(root.join(p)).unwrap();
                    add(&mut required, &mut allowed, p, Some(true), true);
                    family = "create";
                }
                FsOp::Rmdir(p) => {
                    std::fs::remove_dir(root.join(p)).unwrap();
                    add(&mut required, &mut allowed, p, Some(true), true);
                    // a removed directory can only be told from a file if the event says so
                    if let Some(e) = entry_of(&root, &root.join(p), false) {
                        allowed.insert(e);
                    }
                    family = "remove";
                }
                FsOp::SymlinkDir(p) => {
                    std::os::unix::fs::symlink(root.join("d1/d2"), root.join(p)).unwrap();
                    add(&mut required, &mut allowed, p, Some(true), true);
                    family = "create";
                }
                FsOp::SymlinkFile(p) => {
                    std::os::unix::fs::symlink(root.join("d1/mid.txt"), root.join(p)).unwrap();
                    add(&mut required, &mut allowed, p, Some(false), true);
                    family = "create";
                }
                FsOp::Rename(a, b2) => {
                    std::fs::rename(root.join(a), root.join(b2)).unwrap();
                    add(&mut required, &mut allowed, a, Some(false), true);
                    add(&mut required, &mut allowed, b2, Some(false), true);
                    family = "rename";
                }
            }
            // sentinel: a later event on a dedicated file; inotify and the channel are FIFO
            let sentinel = format!("sentinel{k}.s");
            std::fs::write(ctl.join(&sentinel), b"s").unwrap();
            let sent = (false, format!("sentinel{k}"), "s".to_string());
            allowed.insert(sent.clone());
            allowed.insert((true, String::new(), String::new()));
            let mut got: BTreeSet<Ent> = BTreeSet::new();
            let deadline = std::time::Instant::now() + Duration::from_secs(20);
            let mut saw_sentinel = false;
            while std::time::Instant::now() < deadline {
                match rx.recv_timeout(Duration::from_millis(200)) {
                    Some(msg) => {
                        for e in msg {
                            let e = ent(&e);
                            if e == sent {
                                saw_sentinel = true;
                            }
                            got.insert(e);
                        }
                    }
                    None => {
                        if saw_sentinel {
                            break;
                        }
                    }
                }
            }
            if !saw_sentinel {
                rep.inconclusive("real history: the sentinel event was not delivered within 20 s");
                all_ok = false;
                break;
            }
            let scen = json!({"kind": "real", "history": h, "operation": format!("{op:?}"), "all_operations": format!("{ops:?}"),
                "root_given_to_watch": given.display().to_string(), "root_spelling": spelling, "second_root": "canonical directory holding the sentinels"});
            let missing: Vec<String> = required.difference(&got).map(show).collect();
            let extra: Vec<String> = got.difference(&allowed).map(show).collect();
            let place = match op {
                FsOp::CreateFile(p) | FsOp::Modify(p) | FsOp::DeleteFile(p) | FsOp::Mkdir(p) | FsOp::Rmdir(p) | FsOp::Rename(_, p) | FsOp::SymlinkDir(p) | FsOp::SymlinkFile(p) => {
                    if p.contains('/') {
                        "nested"
                    } else {
                        "top-level"
                    }
                }
            };
            if !missing.is_empty() {
                let what = if required.difference(&got).any(|e| e.0 && e.1.is_empty()) {
                    "root-directory-not-named"
                } else if required.difference(&got).all(|e| e.0) {
                    "parent-not-named"
                } else {
                    "entry-not-named"
                };
                rep.violation(
                    what,
                    &format!("C12/{family}:{place}:{what}{}", if spelling == "canonical" { String::new() } else { format!(":{spelling}-root") }),
                    json!({"missing": missing, "delivered": got.iter().map(show).collect::<Vec<_>>()}),
                    scen.clone(),
                );
            }
            if !extra.is_empty() {
                rep.violation(
                    "unexpected-entry-named",
                    &format!("C12/{family}:{place}:unexpected-entry-named"),
                    json!({"unexpected": extra, "delivered": got.iter().map(show).collect::<Vec<_>>()}),
                    scen.clone(),
                );
            }
            rep.count("real_operations", 1);
            rep.seen("real_op_kinds", &format!("{family}:{place}"));
            if matches!(op, FsOp::SymlinkDir(_) | FsOp::SymlinkFile(_)) {
                rep.count("real_symlink_operations", 1);
            }
            rep.nontrivial(mix(0x4ea1, fnv_str(&format!("{op:?}{h}"))));
        }
        if all_ok && rep.samples.len() < 3 {
            rep.sample(json!({"kind": "real history", "operations": format!("{ops:?}")}));
        }
        drop(rx);
        let _ = std::env::set_current_dir(&old_cwd);
        let _ = std::fs::remove_file(&link);
        let _ = std::fs::remove_dir_all(dir);
        let _ = std::fs::remove_dir_all(ctl_dir);
    }
}

pub fn run(args: &Args) -> Report {
    let mut rep = Report::new(args);
    rep.rule = "(a) synthetic: every entry of generated trees (root, top level, nested; files with and without \
                extension; directories), vanished, outside and invalid paths, in './' and 'x/../' spellings, x every \
                notify::EventKind family x one or two watched roots, fed to the crate's real event handler (hook H-B); \
                the delivered entries must contain the entry whose path_of is the path (right kind / id / extension) \
                and, for create / rename / remove, its parent directory, and nothing unrelated; where the kind of a \
                vanished path is unknowable either kind is accepted; Any / Access / Other are only required not to \
                name anything unrelated; (b) real create / modify / delete / mkdir / rmdir / rename histories on a \
                scratch directory through FsWatcherBuilder, each operation closed by a sentinel file event (FIFO); \
                (c) id_of_path(path_of(E)) == E and injectivity of path_of over all valid entries up to depth 3. \
                Non-trivial = a case where some entry is required; distinct = distinct (event kind, path)"
        .into();
    let mut rng = Rng::new(args.seed).sub(12 + args.shard as u64 * 1000);
    if cfg!(miri) {
        rep.inconclusive("inotify / filesystem watcher cannot run under Miri");
        return rep;
    }
    crate::util::quiet_panics(true);
    let ntrees = args.n(4, 60);
    synthetic(&mut rep, &mut rng, ntrees, args.shard * 1000);
    if args.shard == 0 {
        round_trip(&mut rep, &mut rng);
    }
    real_histories(&mut rep, &mut rng, args.n(20, 300));
    crate::util::quiet_panics(false);
    rep.floor_set("event_kinds", 16);
    rep.floor_set("real_op_kinds", 4);
    rep.floor_set("root_spellings", if args.nshards > 1 { 3 } else { 5 });
    rep.floor("real_operations", rep.get("real_operations"), 20);
    rep
}
