//! C14 — dependencies are attributed to the asset being loaded, and only to it.

use crate::assets::*;
use crate::reload::{CacheKind, Judge, Step, World, WorldCfg};
use crate::rng::{fnv_str, mix, Rng};
use crate::{Args, Report};
use serde_json::json;

const LEAVES: [&str; 4] = ["d.a0", "d.a1", "d.a2", "d.a3"];

fn atoms() -> Vec<(&'static str, Vec<Op>)> {
    vec![
        ("file", vec![Op::File { id: "d.a0".into(), ext: "a".into() }]),
        ("load-leaf", vec![Op::Load { ty: LEAF_A, id: "d.a1".into() }]),
        ("owned-leaf", vec![Op::Owned { ty: LEAF_A, id: "d.a2".into() }]),
        ("load-dir", vec![Op::Load { ty: Ty::Dir(Elem::LeafA), id: "d".into() }]),
        ("load-node", vec![Op::Load { ty: Ty::Node(0), id: "s0".into() }]),
        ("try-node", vec![Op::Try { ty: Ty::Node(0), id: "s1".into() }]),
        ("readdir", vec![Op::ReadDir { id: "d".into() }]),
        ("cached-leaf", vec![Op::Cached { ty: LEAF_A, id: "d.a3".into() }]),
        ("owned-node", vec![Op::Owned { ty: Ty::Node(0), id: "s0".into() }]),
        // a type that opts out of hot-reloading, not cached yet: its reads are part of the outer load
        ("load-optout-leaf", vec![Op::Load { ty: LEAF_S, id: "e.b0".into() }]),
        ("owned-optout-leaf", vec![Op::Owned { ty: LEAF_S, id: "e.b1".into() }]),
        // two extensions, only the second file exists: the probe of the first one is a read too
        ("load-second-ext", vec![Op::Load { ty: LEAF_2, id: "e.m0".into() }]),
        // a recursive directory: the parent depends on the recursive directory of each sub-directory
        ("load-recdir", vec![Op::Load { ty: Ty::RecDir(Elem::LeafA), id: "r".into() }]),
    ]
}

#[derive(Clone, Copy, Debug, PartialEq, Eq)]
enum Wrap {
    NoRec,
    Thread0,
    Other1,
    OtherCold,
    Thread1,
    /// `catch { X ; load the panicking node }`
    CatchPanic,
    /// `catch { X ; panic }`
    CatchDirectPanic,
}

const WRAPS: [Wrap; 7] = [
    Wrap::NoRec,
    Wrap::Thread0,
    Wrap::Other1,
    Wrap::OtherCold,
    Wrap::Thread1,
    Wrap::CatchPanic,
    Wrap::CatchDirectPanic,
];

fn wrap(w: Wrap, inner: Vec<Op>) -> Vec<Op> {
    match w {
        Wrap::NoRec => vec![Op::NoRec(inner)],
        Wrap::Thread0 => vec![Op::On { slot: 0, thread: true, ops: inner }],
        Wrap::Other1 => vec![Op::On { slot: 1, thread: false, ops: inner }],
        Wrap::OtherCold => vec![Op::On { slot: 2, thread: false, ops: inner }],
        Wrap::Thread1 => vec![Op::On { slot: 1, thread: true, ops: inner }],
        Wrap::CatchPanic => {
            let mut v = inner;
            v.push(Op::Load { ty: Ty::Node(0), id: "sp".into() });
            vec![Op::Catch(v)]
        }
        Wrap::CatchDirectPanic => {
            let mut v = inner;
            v.push(Op::Panic);
            vec![Op::Catch(v)]
        }
    }
}

fn posts() -> Vec<(&'static str, Vec<Op>)> {
    vec![
        ("none", vec![]),
        ("post-file", vec![Op::File { id: "d.a3".into(), ext: "a".into() }]),
        ("post-load", vec![Op::Load { ty: LEAF_A, id: "d.a0".into() }]),
    ]
}

fn judge() -> Judge {
    let mut j = Judge::none("C14");
    j.attribution = true;
    j.precision = true;
    j.results = true;
    // debugging aid: also judge values (normally C05's job)
    if std::env::var_os("VH_JUDGE_VALUES").is_some() {
        j.values = true;
    }
    j
}

/// One recipe: load `t`, then one single-entry edit per involved file, each its own pass.
fn run_recipe(rep: &mut Report, recipe: &[Op], tag: serde_json::Value, static_mode: bool) -> (u64, u64) {
    let j = judge();
    let mut w = World::new(&WorldCfg {
        caches: vec![CacheKind::Hot, CacheKind::Hot, CacheKind::Cold],
        static_mode,
        content_mode: 3,
    });
    w.tag = tag;
    let text = render_recipe(recipe);
    for c in 0..3 {
        for l in LEAVES {
            w.seed_file(c, l, "a", &format!("{l}@c{c}#0"));
        }
        w.seed_file(c, "r.top", "a", &format!("r.top@c{c}#0"));
        w.seed_file(c, "r.sub.in", "a", &format!("r.sub.in@c{c}#0"));
        w.seed_file(c, "r.sub.deep.leaf", "a", &format!("r.sub.deep.leaf@c{c}#0"));
        w.seed_file(c, "e.b0", "a", &format!("e.b0@c{c}#0"));
        w.seed_file(c, "e.b1", "a", &format!("e.b1@c{c}#0"));
        w.seed_file(c, "e.m0", "q", &format!("e.m0.q@c{c}#0"));
        w.seed_file(c, "s0", "n0", "file d.a3 a load L10t d.a0");
        w.seed_file(c, "s1", "n0", "owned L10t d.a1");
        w.seed_file(c, "sp", "n0", "load L10t d.a2 panic");
    }
    w.seed_file(0, "t", "n0", &text);
    // `cached` needs its target present when recorded
    w.apply(&Step::Load { c: 0, ty: LEAF_A, id: "d.a3".into() }, rep, &j);
    w.apply(&Step::Load { c: 1, ty: LEAF_A, id: "d.a3".into() }, rep, &j);
    w.apply(&Step::Load { c: 0, ty: Ty::Node(0), id: "t".into() }, rep, &j);
    let mut version = 0;
    let mut passes_with_reload = 0u64;
    let mut passes = 0u64;
    // single-entry edits: (cache, id, ext)
    let mut edits: Vec<(usize, String, String)> = vec![];
    for c in 0..2usize {
        for l in LEAVES {
            edits.push((c, l.to_string(), "a".into()));
        }
        for n in ["s0", "s1", "sp"] {
            edits.push((c, n.to_string(), "n0".into()));
        }
        edits.push((c, "e.b0".into(), "a".into()));
        edits.push((c, "e.b1".into(), "a".into()));
        edits.push((c, "e.m0".into(), "q".into()));
        // creation of the file that was looked for and not found
        edits.push((c, "e.m0".into(), "p".into()));
    }
    if cfg!(miri) {
        edits = edits.into_iter().step_by(5).collect();
    }
    for (c, id, ext) in edits {
        version += 1;
        let content = match (id.as_str(), ext.as_str()) {
            ("s0", _) => format!("file d.a3 a load L10t d.a0 spin {version}"),
            ("s1", _) => format!("owned L10t d.a1 spin {version}"),
            ("sp", _) => format!("load L10t d.a2 spin {version} panic"),
            _ => format!("{id}@c{c}#{version}"),
        };
        w.apply(&Step::Write { c, id: id.clone(), ext: ext.clone(), content }, rep, &j);
        w.apply(&Step::Notify { c, entries: vec![(false, id, ext)], batched: false }, rep, &j);
        for cc in 0..3 {
            let st = w.apply(&Step::Pass { c: cc }, rep, &j);
            if st.reloaded > 0 {
                passes_with_reload += 1;
            }
        }
        passes += 1;
        if w.aborted.is_some() {
            break;
        }
    }
    // a directory gains an entry (a flat one, then two levels of a recursive one)
    for (c, dir, file) in [(0usize, "d", "d.new"), (1, "d", "d.new"), (0, "r.sub.deep", "r.sub.deep.new"), (0, "r.sub", "r.sub.new")] {
        if w.aborted.is_some() {
            break;
        }
        if cfg!(miri) && c == 1 {
            continue;
        }
        w.apply(&Step::Write { c, id: file.into(), ext: "a".into(), content: format!("new@c{c}") }, rep, &j);
        w.apply(&Step::Notify { c, entries: vec![(true, dir.into(), String::new())], batched: false }, rep, &j);
        for cc in 0..3 {
            let st = w.apply(&Step::Pass { c: cc }, rep, &j);
            if st.reloaded > 0 {
                passes_with_reload += 1;
            }
        }
        passes += 1;
    }
    // finally the recipe file itself
    if w.aborted.is_none() {
        w.apply(&Step::Write { c: 0, id: "t".into(), ext: "n0".into(), content: format!("{text} spin 1") }, rep, &j);
        w.apply(&Step::Notify { c: 0, entries: vec![(false, "t".into(), "n0".into())], batched: false }, rep, &j);
        let st = w.apply(&Step::Pass { c: 0 }, rep, &j);
        if st.reloaded > 0 {
            passes_with_reload += 1;
        }
        passes += 1;
    }
    (passes, passes_with_reload)
}


// ---------------------------------------------------------------------------
// Two loads that overlap on two threads
// ---------------------------------------------------------------------------

use std::sync::atomic::{AtomicBool, Ordering::SeqCst};
static OV_ACTIVE: AtomicBool = AtomicBool::new(false);
static OV_EARLY_STARTED: AtomicBool = AtomicBool::new(false);
static OV_EARLY_DONE: AtomicBool = AtomicBool::new(false);
static OV_LATE_STARTED: AtomicBool = AtomicBool::new(false);

fn ov_wait(flag: &AtomicBool) -> Result<(), assets_manager::BoxedError> {
    if !OV_ACTIVE.load(SeqCst) {
        return Ok(());
    }
    if crate::util::wait_until(if cfg!(miri) { 600_000 } else { 60_000 }, || flag.load(SeqCst)) {
        Ok(())
    } else {
        Err("vh: overlap rendezvous watchdog".into())
    }
}

fn ov_read(cache: assets_manager::AnyCache, id: &str) -> Result<(), assets_manager::BoxedError> {
    use assets_manager::source::Source;
    let src = cache.raw_source();
    src.read(id, "a")?;
    Ok(())
}

/// Starts first and ends first.
struct Early;
impl assets_manager::Compound for Early {
    fn load(cache: assets_manager::AnyCache, id: &assets_manager::SharedString) -> Result<Self, assets_manager::BoxedError> {
        ov_read(cache, id)?;
        OV_EARLY_STARTED.store(true, SeqCst);
        ov_wait(&OV_LATE_STARTED)?;
        Ok(Early)
    }
}

/// Starts while `Early` is loading, reads its file only after `Early`'s load has returned.
struct Late;
impl assets_manager::Compound for Late {
    fn load(cache: assets_manager::AnyCache, id: &assets_manager::SharedString) -> Result<Self, assets_manager::BoxedError> {
        ov_wait(&OV_EARLY_STARTED)?;
        OV_LATE_STARTED.store(true, SeqCst);
        ov_wait(&OV_EARLY_DONE)?;
        ov_read(cache, id)?;
        Ok(Late)
    }
}

/// What each of two overlapping loads reads is recorded for it, whichever ends first; also
/// with the two loads in two caches.
fn overlapping_loads(rep: &mut Report, rounds: usize) {
    use crate::mem::{Hot, Mem};
    use assets_manager::AssetCache;
    for round in 0..rounds {
        rep.eval();
        let two_caches = round % 2 == 1;
        let mem1 = Mem::new("c14o1", Hot::Yes);
        let mem2 = if two_caches { Mem::new("c14o2", Hot::Yes) } else { mem1.clone() };
        mem1.write("ov.e", "a", b"e0");
        mem2.write("ov.l", "a", b"l0");
        let c1 = AssetCache::with_source(mem1.clone());
        let c2_owned;
        let c2 = if two_caches {
            c2_owned = AssetCache::with_source(mem2.clone());
            &c2_owned
        } else {
            &c1
        };
        for f in [&OV_EARLY_STARTED, &OV_EARLY_DONE, &OV_LATE_STARTED] {
            f.store(false, SeqCst);
        }
        OV_ACTIVE.store(true, SeqCst);
        let (ok1, ok2) = std::thread::scope(|s| {
            let t1 = s.spawn(|| {
                let r = c1.load::<Early>("ov.e").is_ok();
                OV_EARLY_DONE.store(true, SeqCst);
                r
            });
            let t2 = s.spawn(|| c2.load::<Late>("ov.l").is_ok());
            (t1.join().unwrap_or(false), t2.join().unwrap_or(false))
        });
        OV_ACTIVE.store(false, SeqCst);
        if !(ok1 && ok2) {
            rep.inconclusive("overlapping_loads: the rendezvous inside the loaders did not complete");
            return;
        }
        let he = c1.get_cached::<Early>("ov.e").expect("early cached");
        let hl = c2.get_cached::<Late>("ov.l").expect("late cached");
        let scen = json!({"kind": "two overlapping loads on two threads, the first to start ends first", "round": round, "two_caches": two_caches});
        // one single-entry edit per file, each its own pass on both caches
        for (which, mem, id) in [("late", &mem2, "ov.l"), ("early", &mem1, "ov.e")] {
            let before = (crate::scen::rid_num(he.last_reload_id()), crate::scen::rid_num(hl.last_reload_id()));
            mem.write(id, "a", format!("{which}{round}").as_bytes());
            mem.notify_file(id, "a");
            for (c, m) in [(&c1, &mem1), (c2, &mem2)] {
                let sent = m.sent();
                if !crate::util::wait_until(if cfg!(miri) { 600_000 } else { 120_000 }, || c.verif_events_handled().is_some_and(|h| h >= sent)) {
                    rep.inconclusive("overlapping_loads: barrier watchdog");
                    return;
                }
                c.hot_reload();
            }
            let after = (crate::scen::rid_num(he.last_reload_id()), crate::scen::rid_num(hl.last_reload_id()));
            let moved = (after.0 - before.0, after.1 - before.1);
            let want = if which == "late" { (0, 1) } else { (1, 0) };
            if moved != want {
                rep.violation(
                    "reloaded-set",
                    "C14/reloaded-set:overlapping-loads",
                    json!({"edited": format!("{id}.a"), "reload_id_moved_by": {"Early ov.e": moved.0, "Late ov.l": moved.1},
                           "expected": {"Early ov.e": want.0, "Late ov.l": want.1}}),
                    scen.clone(),
                );
            }
        }
        rep.count("overlapping_load_rounds", 1);
        rep.nontrivial(mix(0x140, round as u64));
    }
}

pub fn run(args: &Args) -> Report {
    let mut rep = Report::new(args);
    rep.rule = "recipes of the loaded compound enumerated as wrapper-chain(atom) + trailing operation: wrapper chains \
                up to length 2 over {no_record, helper thread on the same cache, second cache with reloader, cache \
                without reloader, helper thread on the second cache, catch_unwind around a nested load that panics, \
                catch_unwind around a direct panic} x 12 atoms {raw file read, load / load_owned of a leaf, directory \
                load, read_dir, load / try / load_owned of a nested compound, get_cached, load / load_owned of a \
                not yet cached leaf whose type opts out of hot-reloading, load of a two-extension leaf of which \
                only the second file exists (the missing first file is created later)} x 3 trailing operations \
                (so that recording must have resumed); then one single-entry edit per involved file in both \
                reloading caches, each its own pass: the set of handles whose reload id moved must equal the \
                model's set exactly, and nothing else may change. Non-trivial = at least one pass reloaded \
                something; distinct = distinct recipes"
        .into();
    let miri = cfg!(miri);
    let mut rng = Rng::new(args.seed).sub(14 + args.shard as u64 * 1000);
    CTX.log_on.store(false, std::sync::atomic::Ordering::SeqCst);
    crate::util::quiet_panics(true);
    // enumerate wrapper chains
    let mut chains: Vec<Vec<Wrap>> = vec![vec![]];
    for a in WRAPS {
        chains.push(vec![a]);
    }
    for a in WRAPS {
        for b in WRAPS {
            chains.push(vec![a, b]);
        }
    }
    let mut recipes: Vec<(String, Vec<Op>)> = vec![];
    for ch in &chains {
        for (an, atom) in atoms() {
            for (pn, post) in posts() {
                let mut inner = atom.clone();
                for w in ch.iter().rev() {
                    inner = wrap(*w, inner);
                }
                let mut ops = inner;
                ops.extend(post.clone());
                recipes.push((format!("{ch:?}({an})+{pn}"), ops));
            }
        }
    }
    rep.extra.insert("recipe_space".into(), json!(recipes.len()));
    // quick: a seeded sample; thorough: everything (sharded)
    let take_every = if miri { 700 } else if args.thorough() { 1 } else { 5 };
    let offset = rng.below(take_every);
    let mut total_passes = 0;
    let mut with_reload = 0;
    let mut static_left = if miri { 0 } else { 30 };
    for (i, (name, ops)) in recipes.iter().enumerate() {
        if i % args.nshards != args.shard || (i / args.nshards) % take_every != offset {
            continue;
        }
        rep.eval();
        let static_mode = static_left > 0 && i % 41 == 0;
        if static_mode {
            static_left -= 1;
        }
        let tag = json!({"recipe_index": i, "shape": name, "recipe": render_recipe(ops)});
        let (p, r) = run_recipe(&mut rep, ops, tag, static_mode);
        total_passes += p;
        with_reload += r;
        if r > 0 {
            rep.nontrivial(fnv_str(&render_recipe(ops)));
        }
        for part in name.split(|c: char| !c.is_alphanumeric() && c != '-') {
            if !part.is_empty() {
                rep.seen("recipe_parts", part);
            }
        }
        if rep.samples.len() < 3 && i % 7 == 3 {
            rep.sample(json!({"shape": name, "recipe": render_recipe(ops)}));
        }
    }
    // two loads overlapping on two threads
    if args.shard == 0 {
        overlapping_loads(&mut rep, if miri { 2 } else { args.n(20, 200) });
    }
    // random deeper nestings
    let nrand = if miri { 1 } else { args.n(60, 1500) };
    for h in 0..nrand {
        rep.eval();
        let depth = rng.range(3, 5);
        let mut inner = rng.pick(&atoms()).1.clone();
        let mut shape = vec![];
        for _ in 0..depth {
            let w = *rng.pick(&WRAPS);
            shape.push(w);
            let mut ops = wrap(w, inner);
            if rng.chance(1, 2) {
                ops.extend(rng.pick(&atoms()).1.clone());
            }
            inner = ops;
        }
        inner.extend(rng.pick(&posts()).1.clone());
        let tag = json!({"random": h, "shape": format!("{shape:?}"), "recipe": render_recipe(&inner)});
        let (p, r) = run_recipe(&mut rep, &inner, tag, false);
        total_passes += p;
        with_reload += r;
        if r > 0 {
            rep.nontrivial(mix(0x14, fnv_str(&render_recipe(&inner))));
        }
    }
    crate::util::quiet_panics(false);
    rep.count("single_entry_edits", total_passes);
    rep.count("passes_with_reload", with_reload);
    rep.exhaustive = Some(take_every == 1);
    rep.floor_set("recipe_parts", if miri { 3 } else { 15 });
    rep.floor("passes_with_reload", with_reload, if miri { 1 } else { 200 });
    rep
}
