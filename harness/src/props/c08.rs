//! C08 — `hot_reload` always returns (bounded-progress form).
//!
//! Every configuration runs in a child process.  The child's observer turns
//! "a caller is asleep inside hot_reload, the reloader thread is asleep too
//! (or gone), nobody used any CPU and no call completed for N samples" into
//! positive evidence of a deadlock; death by signal is crash evidence; the
//! parent's wall-clock watchdog is inconclusive.

use crate::assets::*;
use crate::mem::{Hot, Mem};
use crate::procfs;
use crate::rng::{fnv_str, mix, Rng};
use crate::{Args, Report};
use assets_manager::source::OwnedDirEntry;
use assets_manager::AssetCache;
use serde_json::{json, Value};
use std::sync::atomic::{AtomicBool, AtomicI64, AtomicU64, Ordering::SeqCst};
use std::sync::Mutex;

#[derive(Clone, Debug)]
pub struct Cfg {
    pub callers: usize,
    pub loaders: usize,
    pub bursts: bool,
    pub calls: usize,
    /// "none" | "mutual" | "self" | "cycle3" | "mutual-deep"
    pub shape: &'static str,
}

impl Cfg {
    fn name(&self) -> String {
        format!("c{}-l{}-b{}-n{}-{}", self.callers, self.loaders, self.bursts as u8, self.calls, self.shape)
    }
    fn parse(s: &str) -> Cfg {
        let p: Vec<&str> = s.split('-').collect();
        let shape = match p[4..].join("-").as_str() {
            "mutual" => "mutual",
            "self" => "self",
            "cycle3" => "cycle3",
            "mutual-deep" => "mutual-deep",
            "static" => "static",
            "static-stream" => "static-stream",
            "fanout" => "fanout",
            "sender-dropped" => "sender-dropped",
            "inserted-key" => "inserted-key",
            "deep-chain" => "deep-chain",
            _ => "none",
        };
        Cfg {
            callers: p[0][1..].parse().unwrap(),
            loaders: p[1][1..].parse().unwrap(),
            bursts: &p[2][1..] == "1",
            calls: p[3][1..].parse().unwrap(),
            shape,
        }
    }
}

static COMPLETED: AtomicU64 = AtomicU64::new(0);
/// number of event messages the reloader has handled, as published by the burst thread
static HANDLED: AtomicU64 = AtomicU64::new(0);
static FANOUT_LOADS: AtomicU64 = AtomicU64::new(0);
static IN_CALL: AtomicI64 = AtomicI64::new(0);
static CALLER_TIDS: Mutex<Vec<i32>> = Mutex::new(Vec::new());
static IN_CALL_TIDS: Mutex<Vec<i32>> = Mutex::new(Vec::new());

#[cfg(not(miri))]
fn observer() {
    std::thread::spawn(|| {
        let mut frozen = 0;
        let mut last_completed = 0;
        let mut handled_at_freeze = 0;
        let mut last_ticks: std::collections::HashMap<i32, u64> = Default::default();
        loop {
            std::thread::sleep(std::time::Duration::from_millis(200));
            let completed = COMPLETED.load(SeqCst);
            let in_call: Vec<i32> = IN_CALL_TIDS.lock().unwrap().clone();
            let reloaders = procfs::reloader_tasks();
            let mut callers_asleep = !in_call.is_empty();
            let mut reloaders_asleep = true;
            let mut detail = vec![];
            for (is_caller, tid) in in_call.iter().map(|t| (true, *t)).chain(reloaders.iter().map(|t| (false, t.tid))) {
                match procfs::task(tid) {
                    Some(t) => {
                        let prev = last_ticks.insert(tid, t.ticks);
                        let idle = t.state == 'S' && prev == Some(t.ticks);
                        detail.push(format!("{}:{}:{}{}", t.comm, tid, t.state, if idle { "" } else { "*" }));
                        if !idle {
                            if is_caller {
                                callers_asleep = false;
                            } else {
                                reloaders_asleep = false;
                            }
                        }
                    }
                    None => {
                        if is_caller {
                            callers_asleep = false;
                        }
                    }
                }
            }
            let handled = HANDLED.load(SeqCst);
            if completed == last_completed && callers_asleep {
                if frozen == 0 {
                    handled_at_freeze = handled;
                }
                frozen += 1;
            } else {
                frozen = 0;
            }
            last_completed = completed;
            // (a) everybody sleeps: nobody can answer any more;
            // (b) the callers sleep while the reloader keeps serving other
            //     messages: it went round its loop many times without answering
            let served_meanwhile = handled.saturating_sub(handled_at_freeze);
            let stuck = frozen >= 6 && (reloaders_asleep || (frozen >= 15 && served_meanwhile >= 200));
            if stuck {
                println!(
                    "VERDICT deadlock completed={} callers_inside_hot_reload={} reloader_threads={} reloader_asleep={} events_served_while_callers_slept={} states={:?}",
                    completed,
                    in_call.len(),
                    reloaders.len(),
                    reloaders_asleep,
                    served_meanwhile,
                    detail
                );
                std::process::exit(3);
            }
        }
    });
}

/// In `enhance_hot_reloading` mode every reload of this asset publishes one more change of its
/// own file: notifications never stop coming, one at a time, each produced while the previous
/// one is being handled (on the reloader thread).
struct Echo;
static ECHO_MEM: Mutex<Option<Mem>> = Mutex::new(None);
static ECHO_ON: AtomicBool = AtomicBool::new(false);

impl assets_manager::Compound for Echo {
    fn load(cache: assets_manager::AnyCache, id: &assets_manager::SharedString) -> Result<Self, assets_manager::BoxedError> {
        {
            use assets_manager::source::Source;
            let src = cache.raw_source();
            src.read(id, "a")?;
        }
        if ECHO_ON.load(SeqCst) {
            if let Some(m) = &*ECHO_MEM.lock().unwrap() {
                m.notify_file(id, "a");
            }
            HANDLED.fetch_add(1, SeqCst);
        }
        Ok(Echo)
    }
}

fn leaf_content(i: usize, g: u64) -> String {
    format!("own{i}#g{g}")
}

/// The workload of one configuration (runs inside the child process).
/// The source stops sending for good (it drops its `EventSender`) while threads keep calling
/// `hot_reload`: every call must still return.
fn child_sender_dropped(args: &Args, mut rep: Report, cfg: &Cfg) -> Report {
    CTX.log_on.store(false, SeqCst);
    #[cfg(not(miri))]
    observer();
    let base = Rng::new(args.seed).sub(fnv_str(&cfg.name()));
    let reps = if cfg!(miri) { 2 } else { cfg.calls };
    let per_caller = if cfg!(miri) { 3 } else { 40 };
    for r in 0..reps {
        let mem = Mem::new("c08sd", Hot::SenderToHarness);
        mem.set_logging(false);
        mem.write("x", "a", b"x0");
        let cache = AssetCache::with_source(mem.clone());
        let _ = cache.load::<Leaf<1, 0, true>>("x");
        let sender = mem.take_sender();
        let done_calls = AtomicU64::new(0);
        let mut rr = base.sub(r as u64);
        let drop_after = rr.below(cfg.callers * per_caller) as u64;
        std::thread::scope(|s| {
            for _ in 0..cfg.callers {
                let (cache, done_calls) = (&cache, &done_calls);
                s.spawn(move || {
                    #[cfg(not(miri))]
                    let tid = procfs::gettid();
                    #[cfg(miri)]
                    let tid = 0;
                    for _ in 0..per_caller {
                        IN_CALL_TIDS.lock().unwrap().push(tid);
                        cache.hot_reload();
                        IN_CALL_TIDS.lock().unwrap().retain(|t| *t != tid);
                        COMPLETED.fetch_add(1, SeqCst);
                        done_calls.fetch_add(1, SeqCst);
                    }
                });
            }
            while done_calls.load(SeqCst) < drop_after {
                crate::util::pause();
            }
            if let Some(sd) = &sender {
                let _ = sd.send(OwnedDirEntry::File("x".into(), "a".into()));
            }
            drop(sender);
        });
        rep.count("sender_dropped_rounds", 1);
    }
    let completed = COMPLETED.load(SeqCst);
    rep.evaluations += completed;
    rep.count("hot_reload_calls_completed", completed);
    rep.nontrivial(mix(fnv_str(&cfg.name()), completed));
    rep
}

fn child(args: &Args, mut rep: Report, cfg: &Cfg) -> Report {
    if cfg.shape == "sender-dropped" {
        return child_sender_dropped(args, rep, cfg);
    }
    let miri = cfg!(miri);
    let mem = Mem::new("c08", Hot::Yes);
    mem.set_logging(false);
    CTX.log_on.store(false, SeqCst);
    for i in 0..cfg.callers {
        mem.write(&format!("own.c{i}"), "a", leaf_content(i, 0).as_bytes());
    }
    for k in 0..4 {
        mem.write(&format!("shared.s{k}"), "a", format!("shared{k}").as_bytes());
    }
    // dependency shapes with look-ups that form cycles in the recorded graph
    match cfg.shape {
        "mutual" => {
            mem.write("m.a", "n0", b"file shared.s0 a peek N0 m.b");
            mem.write("m.b", "n0", b"file shared.s0 a peek N0 m.a");
        }
        "self" => {
            mem.write("m.a", "n0", b"file shared.s0 a peek N0 m.a");
        }
        "cycle3" => {
            mem.write("m.a", "n0", b"file shared.s0 a peek N0 m.b");
            mem.write("m.b", "n0", b"peek N0 m.c load L10t shared.s1");
            mem.write("m.c", "n0", b"peek N0 m.a");
        }
        "mutual-deep" => {
            mem.write("m.a", "n0", b"load L10t shared.s0 peek N0 m.b load N0 m.d");
            mem.write("m.b", "n0", b"load L10t shared.s0 peek N0 m.a");
            mem.write("m.d", "n0", b"peek N0 m.b load L10t shared.s1");
        }
        // 1500 compounds, each looking up the previous one: the dependency graph is a chain as
        // long as that, walked recursively when its first link changes
        "deep-chain" => {
            mem.write("ch.n0", "n0", b"file shared.s0 a");
            for k in 1..1500 {
                mem.write(&format!("ch.n{k}"), "n0", format!("peek N0 ch.n{}", k - 1).as_bytes());
            }
        }
        // keys the dependency graph knows (load_owned) but whose entry was stored by hand
        "inserted-key" => {
            for i in 0..cfg.callers {
                mem.write(&format!("ik.c{i}"), "a", b"ik0");
            }
        }
        // every caller owns a compound whose reloads load 60..220 assets that were never loaded
        // before: the reloader thread then registers assets with itself while it is reloading
        "fanout" => {
            for i in 0..cfg.callers {
                mem.write(&format!("fan.n{i}"), "n0", b"load L10t shared.s0");
            }
        }
        _ => {}
    }
    // "static": the documented combination enhance_hot_reloading() + hot_reload()
    // (the latter has no effect any more, but it must return)
    let owned;
    let cache: &AssetCache<Mem> = if cfg.shape == "static" || cfg.shape == "static-stream" {
        let leaked: &'static AssetCache<Mem> = Box::leak(Box::new(AssetCache::with_source(mem.clone())));
        leaked.enhance_hot_reloading();
        leaked
    } else {
        owned = AssetCache::with_source(mem.clone());
        &owned
    };
    let mut shape_keys = vec![];
    let fan_nodes: Vec<_> = if cfg.shape == "fanout" {
        (0..cfg.callers).map(|i| cache.load::<Node<0>>(&format!("fan.n{i}")).expect("fan node")).collect()
    } else {
        vec![]
    };
    if cfg.shape == "deep-chain" {
        for k in 0..1500 {
            let _ = cache.load::<Node<0>>(&format!("ch.n{k}"));
        }
    }
    if cfg.shape == "inserted-key" {
        for i in 0..cfg.callers {
            let id = format!("ik.c{i}");
            let _ = cache.load_owned::<Leaf<1, 0, true>>(&id);
            let _ = cache.get_or_insert::<Leaf<1, 0, true>>(&id, <Leaf<1, 0, true> as FromN>::from_n(5));
        }
    }
    if cfg.shape == "static-stream" {
        mem.write("echo", "a", b"e");
        let _ = cache.load::<Echo>("echo");
        *ECHO_MEM.lock().unwrap() = Some(mem.clone());
        ECHO_ON.store(true, SeqCst);
        mem.notify_file("echo", "a");
    }
    if !matches!(cfg.shape, "none" | "static" | "static-stream" | "deep-chain" | "inserted-key") {
        for id in ["m.a", "m.b", "m.c", "m.d", "m.a", "m.b"] {
            if mem.get(id, "n0").is_some() {
                let _ = cache.load::<Node<0>>(id);
                shape_keys.push(id);
            }
        }
    }
    let handles: Vec<_> = (0..cfg.callers)
        .map(|i| cache.load::<Leaf<1, 0, true>>(&format!("own.c{i}")).expect("own leaf"))
        .collect();
    #[cfg(not(miri))]
    observer();
    let done = AtomicBool::new(false);
    let max_inside = AtomicI64::new(0);
    let rounds_overlapped = AtomicU64::new(0);
    let stale = Mutex::new(Vec::<Value>::new());
    let base = Rng::new(args.seed).sub(fnv_str(&cfg.name()));
    let calls = if miri { cfg.calls.min(4) } else { cfg.calls };
    std::thread::scope(|s| {
        let mut callers = vec![];
        for i in 0..cfg.callers {
            let (cache, mem, done, max_inside, rounds_overlapped, stale) = (cache, &mem, &done, &max_inside, &rounds_overlapped, &stale);
            let h = handles[i];
            let shape = cfg.shape;
            let fan = fan_nodes.get(i).copied();
            let mut fr = base.sub(500 + i as u64);
            callers.push(s.spawn(move || {
                #[cfg(not(miri))]
                let tid = procfs::gettid();
                #[cfg(miri)]
                let tid = i as i32;
                CALLER_TIDS.lock().unwrap().push(tid);
                let id = format!("own.c{i}");
                for g in 1..=calls as u64 {
                    let content = leaf_content(i, g);
                    mem.write(&id, "a", content.as_bytes());
                    mem.notify_file(&id, "a");
                    if shape == "inserted-key" {
                        mem.write(&format!("ik.c{i}"), "a", format!("ik{g}").as_bytes());
                        mem.notify_file(&format!("ik.c{i}"), "a");
                    }
                    let mut fan_want = None;
                    if shape == "fanout" && g % 4 == 0 {
                        let n = fr.range(60, 220);
                        let mut recipe = String::new();
                        for j in 0..n {
                            let lid = format!("fan.c{i}g{g}x{j}");
                            mem.write(&lid, "a", b"f");
                            recipe.push_str(&format!("load L10t {lid} "));
                        }
                        mem.write(&format!("fan.n{i}"), "n0", recipe.as_bytes());
                        mem.notify_file(&format!("fan.n{i}"), "n0");
                        fan_want = Some(n);
                    }
                    if shape != "none" && shape != "static" && shape != "static-stream" && shape != "fanout" && shape != "inserted-key" && g % 3 == 0 {
                        // touch the cyclic part of the graph too
                        mem.write("shared.s0", "a", format!("shared0-{i}-{g}").as_bytes());
                        mem.notify_file("shared.s0", "a");
                    }
                    let target = mem.sent();
                    // pure spinning (state R): a waiting caller must never look blocked
                    let t0 = std::time::Instant::now();
                    while cache.verif_events_handled().is_some_and(|n| n < target) {
                        std::thread::yield_now();
                        if t0.elapsed().as_secs() > 300 {
                            return Err("event barrier watchdog");
                        }
                    }
                    let inside = IN_CALL.fetch_add(1, SeqCst) + 1;
                    max_inside.fetch_max(inside, SeqCst);
                    if inside >= 2 {
                        rounds_overlapped.fetch_add(1, SeqCst);
                    }
                    IN_CALL_TIDS.lock().unwrap().push(tid);
                    cache.hot_reload();
                    IN_CALL_TIDS.lock().unwrap().retain(|t| *t != tid);
                    IN_CALL.fetch_sub(1, SeqCst);
                    COMPLETED.fetch_add(1, SeqCst);
                    // released by its own answer: the reload it asked for is done
                    let v = h.read().v.clone();
                    let want = V::Leaf { ext: "a".into(), len: content.len(), hash: content_hash(content.as_bytes()) };
                    if v != want {
                        stale.lock().unwrap().push(json!({"caller": i, "generation": g, "read_after_return": format!("{v:?}"), "expected": format!("{want:?}")}));
                    }
                    if let (Some(n), Some(f)) = (fan_want, fan) {
                        let got = f.read().trace.len();
                        if got != n {
                            stale.lock().unwrap().push(json!({"caller": i, "generation": g, "fan_node_loads_after_return": got, "expected": n}));
                        }
                        FANOUT_LOADS.fetch_add(n as u64, SeqCst);
                    }
                }
                let _ = done;
                Ok(())
            }));
        }
        for l in 0..cfg.loaders {
            let (cache, done) = (cache, &done);
            let mut r = base.sub(1000 + l as u64);
            s.spawn(move || {
                let mut n = 0u64;
                while !done.load(SeqCst) {
                    let k = r.below(4);
                    match r.below(4) {
                        0 => {
                            let _ = cache.load::<Leaf<1, 0, true>>(&format!("shared.s{k}"));
                        }
                        1 => {
                            let _ = cache.get_or_insert::<PTok>(&format!("ins.{}", r.below(64)), PTok::new(n));
                        }
                        2 => {
                            let _ = cache.load::<Node<0>>("m.a");
                        }
                        _ => {
                            let _ = cache.get_cached::<Node<0>>("m.b").map(|h| h.read().trace.len());
                        }
                    }
                    n += 1;
                    if n % 64 == 0 {
                        std::thread::yield_now();
                    }
                }
            });
        }
        if cfg.bursts {
            let (mem, done, cache) = (&mem, &done, cache);
            let mut r = base.sub(77);
            s.spawn(move || {
                while !done.load(SeqCst) {
                    // never run far ahead of the reloader (slow builds): the callers' event barrier
                    // has to be reachable
                    let backlog = (mem.sent() as u64).saturating_sub(cache.verif_events_handled().unwrap_or(0) as u64);
                    if backlog > 64 {
                        std::thread::yield_now();
                        continue;
                    }
                    let burst: Vec<OwnedDirEntry> = (0..r.range(1, 8))
                        .map(|_| match r.below(4) {
                            0 => OwnedDirEntry::File(format!("shared.s{}", r.below(4)).as_str().into(), "a".into()),
                            1 => OwnedDirEntry::Directory("shared".into()),
                            2 => OwnedDirEntry::File("unknown.zz".into(), "a".into()),
                            _ => OwnedDirEntry::File("m.a".into(), "n0".into()),
                        })
                        .collect();
                    mem.notify_batch(burst);
                    HANDLED.store(cache.verif_events_handled().unwrap_or(0) as u64, SeqCst);
                    for _ in 0..50 {
                        std::thread::yield_now();
                    }
                }
            });
        }
        let mut errs = vec![];
        for c in callers {
            match c.join() {
                Ok(Ok(())) => {}
                Ok(Err(e)) => errs.push(e.to_string()),
                Err(p) => errs.push(format!("caller panicked: {}", crate::util::panic_message(&*p))),
            }
        }
        done.store(true, SeqCst);
        ECHO_ON.store(false, SeqCst);
        for e in errs {
            if e.contains("watchdog") {
                rep.inconclusive(&e);
            } else {
                rep.violation("caller-panicked", "C08/caller-panicked", json!(e), json!({"config": cfg.name()}));
            }
        }
    });
    let completed = COMPLETED.load(SeqCst);
    rep.evaluations += completed;
    rep.count("hot_reload_calls_completed", completed);
    rep.count("rounds_with_2plus_callers_inside", rounds_overlapped.load(SeqCst));
    rep.count("new_assets_loaded_inside_reloads", FANOUT_LOADS.load(SeqCst));
    rep.count("reloads_logged_by_the_crate", crate::logcap::reloadings());
    rep.set_max("max_callers_inside_simultaneously", max_inside.load(SeqCst) as u64);
    let stale = stale.into_inner().unwrap();
    if !stale.is_empty() {
        rep.violation(
            "returned-before-own-reload",
            "C08/returned-before-own-reload",
            json!({"count": stale.len(), "first": stale[0]}),
            json!({"config": cfg.name()}),
        );
    }
    if completed != (cfg.callers * calls) as u64 && rep.inconclusive.is_empty() {
        rep.violation(
            "calls-missing",
            "C08/calls-missing",
            json!({"completed": completed, "expected": cfg.callers * calls}),
            json!({"config": cfg.name()}),
        );
    }
    rep.nontrivial(mix(fnv_str(&cfg.name()), completed));
    rep
}

pub fn configs(args: &Args) -> Vec<Cfg> {
    let t = args.thorough();
    let n = |q: usize, th: usize| if t { th } else { q };
    let mut v = vec![];
    for callers in [1usize, 2, 4, 8, 16] {
        for loaders in [0usize, 2, 4] {
            if !t && !(matches!((callers, loaders), (1, 0) | (2, 2) | (4, 0) | (4, 4) | (8, 2) | (16, 4))) {
                continue;
            }
            v.push(Cfg { callers, loaders, bursts: loaders > 0, calls: ((n(4000, 60000) as f64 * args.scale) as usize) / callers.max(1) + 20, shape: "none" });
        }
    }
    v.push(Cfg { callers: 1, loaders: 0, bursts: false, calls: (n(300, 3000) as f64 * args.scale) as usize + 10, shape: "static" });
    v.push(Cfg { callers: 4, loaders: 2, bursts: true, calls: (n(300, 3000) as f64 * args.scale) as usize + 10, shape: "static" });
    v.push(Cfg { callers: 2, loaders: 0, bursts: false, calls: (n(300, 3000) as f64 * args.scale) as usize + 10, shape: "static-stream" });
    v.push(Cfg { callers: 1, loaders: 0, bursts: false, calls: (n(120, 1200) as f64 * args.scale) as usize + 8, shape: "fanout" });
    v.push(Cfg { callers: 3, loaders: 2, bursts: true, calls: (n(120, 1200) as f64 * args.scale) as usize + 8, shape: "fanout" });
    v.push(Cfg { callers: 2, loaders: 0, bursts: false, calls: (n(150, 1500) as f64 * args.scale) as usize + 10, shape: "inserted-key" });
    v.push(Cfg { callers: 1, loaders: 0, bursts: false, calls: (n(30, 300) as f64 * args.scale) as usize + 6, shape: "deep-chain" });
    // here `calls` is the number of caches created; 40 calls per caller and cache
    v.push(Cfg { callers: 1, loaders: 0, bursts: false, calls: (n(150, 1500) as f64 * args.scale) as usize + 5, shape: "sender-dropped" });
    v.push(Cfg { callers: 4, loaders: 0, bursts: false, calls: (n(150, 1500) as f64 * args.scale) as usize + 5, shape: "sender-dropped" });
    for shape in ["mutual", "self", "cycle3", "mutual-deep"] {
        v.push(Cfg { callers: 2, loaders: 1, bursts: false, calls: (n(600, 6000) as f64 * args.scale) as usize + 10, shape });
        if t {
            v.push(Cfg { callers: 8, loaders: 2, bursts: true, calls: 300, shape });
        }
    }
    v
}

pub fn run(args: &Args) -> Report {
    let mut rep = Report::new(args);
    rep.rule = "configurations = C in {1,2,4,8,16} concurrent hot_reload callers x L in {0,2,4} loader / get_or_insert \
                threads x event bursts, each caller editing + notifying its own asset, waiting for the logical event \
                barrier, calling hot_reload and reading its own generation right after return; plus dependency \
                shapes whose recorded graph is cyclic (two assets that get_cached each other, self look-up, 3-cycle, \
                mutual look-up under a common parent). Each configuration runs in a child process with a /proc \
                observer. Evaluations = completed hot_reload calls; a configuration is non-trivial when it \
                completed; distinct = distinct configurations"
        .into();
    if let Some(m) = &args.mode {
        if let Some(c) = m.strip_prefix("child:") {
            return child(args, rep, &Cfg::parse(c));
        }
    }
    if cfg!(miri) {
        // no child processes under Miri: two small in-process configurations
        let mut r = child(args, rep, &Cfg { callers: 2, loaders: 1, bursts: false, calls: 3, shape: "none" });
        r.floor("hot_reload_calls_completed", r.get("hot_reload_calls_completed"), 4);
        return r;
    }
    let cfgs = configs(args);
    let _ = Rng::new(args.seed);
    let mut overlapped_cfgs = 0u64;
    let mut multi_caller_cfgs = 0u64;
    for (i, cfg) in cfgs.iter().enumerate() {
        if i % args.nshards != args.shard {
            continue;
        }
        rep.seen("shapes", cfg.shape);
        let r = run_child(&mut rep, args, cfg);
        if cfg.callers >= 2 {
            multi_caller_cfgs += 1;
            if r >= 1 {
                overlapped_cfgs += 1;
            }
        }
    }
    rep.count("configurations", cfgs.len() as u64);
    rep.count("multi_caller_configurations_with_overlap", overlapped_cfgs);
    rep.count("multi_caller_configurations", multi_caller_cfgs);
    rep.floor("hot_reload_calls_completed", rep.get("hot_reload_calls_completed"), 300);
    rep.floor_set("shapes", if args.nshards > 1 { 1 } else { 6 });
    // >= 2 callers observed inside hot_reload simultaneously in (almost) every multi-caller configuration
    rep.floor("multi_caller_configurations_with_overlap", overlapped_cfgs * 10, multi_caller_cfgs * 7);
    rep
}

#[cfg(miri)]
fn run_child(_rep: &mut Report, _args: &Args, _cfg: &Cfg) -> u64 {
    0
}

/// Returns the number of rounds in which >= 2 callers were inside hot_reload.
#[cfg(not(miri))]
fn run_child(rep: &mut Report, args: &Args, cfg: &Cfg) -> u64 {
    use std::process::{Command, Stdio};
    let exe = std::env::current_exe().expect("current_exe");
    let dir = crate::util::scratch_dir("c08child");
    let out = dir.join("child.json");
    let mut cmd = Command::new(exe);
    cmd.args(["C08", "--tier", &args.tier, "--seed", &args.seed.to_string(), "--build", &args.build, "--mode", &format!("child:{}", cfg.name()), "--out"])
        .arg(&out)
        .stdout(Stdio::piped())
        .stderr(Stdio::piped());
    let mut ch = match cmd.spawn() {
        Ok(c) => c,
        Err(e) => {
            rep.inconclusive(&format!("could not spawn the child process: {e}"));
            return 0;
        }
    };
    let start = std::time::Instant::now();
    let status = loop {
        match ch.try_wait() {
            Ok(Some(s)) => break Some(s),
            Ok(None) => {
                if start.elapsed().as_secs() > 900 {
                    let _ = ch.kill();
                    let _ = ch.wait();
                    break None;
                }
                std::thread::sleep(std::time::Duration::from_millis(10));
            }
            Err(_) => break None,
        }
    };
    use std::io::Read;
    let mut stdout = String::new();
    let mut stderr = String::new();
    if let Some(mut so) = ch.stdout.take() {
        let _ = so.read_to_string(&mut stdout);
    }
    if let Some(mut se) = ch.stderr.take() {
        let _ = se.read_to_string(&mut stderr);
    }
    let scen = json!({"config": cfg.name(), "callers": cfg.callers, "loaders": cfg.loaders, "bursts": cfg.bursts,
        "calls_per_caller": cfg.calls, "shape": cfg.shape, "child_mode": format!("child:{}", cfg.name())});
    let mut overlapped = 0;
    match status {
        None => rep.inconclusive(&format!("child watchdog expired for {}", cfg.name())),
        Some(st) => {
            use std::os::unix::process::ExitStatusExt;
            if let Some(sig) = st.signal() {
                let tail: Vec<&str> = stderr.lines().rev().take(4).collect();
                let sigclass = if stderr.contains("overflowed its stack") { "stack-overflow" } else { "signal" };
                rep.violation(
                    "process-aborted",
                    &format!("C08/process-aborted:{sigclass}:{}", if cfg.shape == "none" { "acyclic" } else { "cyclic-lookups" }),
                    json!({"signal": sig, "stderr_tail": tail}),
                    scen,
                );
            } else if st.code() == Some(3) {
                let verdict = stdout.lines().find(|l| l.starts_with("VERDICT")).unwrap_or("").to_string();
                rep.violation(
                    "deadlock",
                    &format!("C08/deadlock:{}", if cfg.callers >= 2 { "concurrent-callers" } else { "single-caller" }),
                    json!({"verdict": verdict}),
                    scen,
                );
            } else if let Ok(text) = std::fs::read_to_string(&out) {
                if let Ok(v) = serde_json::from_str::<Value>(&text) {
                    rep.evaluations += v["evaluations"].as_u64().unwrap_or(0);
                    for k in ["hot_reload_calls_completed", "rounds_with_2plus_callers_inside"] {
                        rep.count(k, v["counters"][k].as_u64().unwrap_or(0));
                    }
                    overlapped = v["counters"]["rounds_with_2plus_callers_inside"].as_u64().unwrap_or(0);
                    rep.set_max("max_callers_inside_simultaneously", v["counters"]["max_callers_inside_simultaneously"].as_u64().unwrap_or(0));
                    for h in v["distinct_hashes"].as_array().into_iter().flatten() {
                        if let Some(h) = h.as_str().and_then(|s| u64::from_str_radix(s, 16).ok()) {
                            rep.nontrivial(h);
                        }
                    }
                    for viol in v["violations"].as_array().into_iter().flatten() {
                        rep.violation(
                            viol["clause"].as_str().unwrap_or("child"),
                            viol["signature"].as_str().unwrap_or("C08/child"),
                            viol["detail"].clone(),
                            viol["scenario"].clone(),
                        );
                    }
                    for inc in v["inconclusive"].as_array().into_iter().flatten() {
                        rep.inconclusive(inc.as_str().unwrap_or("child inconclusive"));
                    }
                    if rep.samples.len() < 3 {
                        rep.sample(json!({"config": scen, "completed_calls": v["counters"]["hot_reload_calls_completed"],
                            "rounds_with_2plus_callers_inside": overlapped}));
                    }
                }
            } else {
                rep.inconclusive(&format!("child exited with {:?} without a result file: {}", st.code(), stderr.lines().last().unwrap_or("")));
            }
        }
    }
    let _ = std::fs::remove_dir_all(dir);
    overlapped
}
