//! C07 — readers are isolated from reloads: guards pin values, no torn reads;
//! without `enhance_hot_reloading` values change only inside `hot_reload`.

use crate::assets::*;
use crate::mem::{tick, Hot, Mem};
use crate::rng::{mix, Rng};
use crate::scen::rid_num;
use crate::{Args, Report};
use assets_manager::loader::Loader;
use assets_manager::{Asset, AssetCache, AssetReadGuard, BoxedError};
use std::borrow::Cow;
use serde_json::json;
use std::sync::atomic::{AtomicBool, AtomicU64, Ordering::SeqCst};
use std::sync::Mutex;

/// A multi-word `Copy` asset (all words equal) for `Handle::copied`.
#[derive(Clone, Copy)]
struct Wide([u64; 64]);

impl Wide {
    fn check(&self) -> Result<u64, String> {
        match self.0.iter().position(|w| *w != self.0[0]) {
            None => Ok(self.0[0]),
            Some(i) => Err(format!("word {i} = {} but word 0 = {}", self.0[i], self.0[0])),
        }
    }
}

/// A `Copy` asset whose size is neither a multiple of the word size nor below it (12 bytes).
#[derive(Clone, Copy, PartialEq, Eq, Debug)]
struct Tri([u32; 3]);

impl Loader<Tri> for WideLoader {
    fn load(content: Cow<[u8]>, _ext: &str) -> Result<Tri, BoxedError> {
        Ok(Tri([parse_gen(&content)? as u32; 3]))
    }
}
impl Asset for Tri {
    const EXTENSION: &'static str = "tri";
    type Loader = WideLoader;
}

/// An asset no larger than a machine word.
#[derive(Clone, Copy, PartialEq, Eq, Debug)]
struct Small(u32);

fn parse_gen(content: &[u8]) -> Result<u64, BoxedError> {
    Ok(std::str::from_utf8(content)?.trim().parse::<u64>()?)
}

struct WideLoader;
impl Loader<Wide> for WideLoader {
    fn load(content: Cow<[u8]>, _ext: &str) -> Result<Wide, BoxedError> {
        Ok(Wide([parse_gen(&content)?; 64]))
    }
}
impl Asset for Wide {
    const EXTENSION: &'static str = "wide";
    type Loader = WideLoader;
}
impl Loader<Small> for WideLoader {
    fn load(content: Cow<[u8]>, _ext: &str) -> Result<Small, BoxedError> {
        Ok(Small(parse_gen(&content)? as u32))
    }
}
impl Asset for Small {
    const EXTENSION: &'static str = "small";
    type Loader = WideLoader;
}

#[derive(Default)]
struct ReaderStats {
    reads: u64,
    transitions: u64,
    guard_holds: u64,
    errors: Vec<String>,
}

const STYLES: usize = 7;

/// Part A: readers against a stream of reloads in enhanced mode.
fn enhanced(rep: &mut Report, rng: &mut Rng, round: usize, readers: usize, reloads: u64) {
    let mem = Mem::new("c07a", Hot::Yes);
    mem.set_logging(false);
    mem.write("b", "big", b"0");
    mem.write("n", "n0", b"load B b");
    mem.write("b", "wide", b"0");
    mem.write("b", "small", b"0");
    mem.write("b", "tri", b"0");
    let cache: &'static AssetCache<Mem> = Box::leak(Box::new(AssetCache::with_source(mem.clone())));
    cache.enhance_hot_reloading();
    let h = cache.load::<Big>("b").expect("load big");
    let hw = cache.load::<Wide>("b").expect("load wide");
    let hs = cache.load::<Small>("b").expect("load small");
    let ht = cache.load::<Tri>("b").expect("load tri");
    let hn = cache.load::<Node<0>>("n").expect("load node");
    let stop = AtomicBool::new(false);
    let stats: Vec<Mutex<ReaderStats>> = (0..readers).map(|_| Mutex::new(ReaderStats::default())).collect();
    let spin = rng.below(3) as u64 * 2000;
    CTX.loader_spin.store(spin, SeqCst);
    std::thread::scope(|s| {
        for r in 0..readers {
            let (stop, stats) = (&stop, &stats);
            let style = (r + round) % STYLES;
            let mut lr = rng.sub(r as u64 + 100 * round as u64);
            s.spawn(move || {
                let mut st = ReaderStats::default();
                let mut last_gen = 0u64;
                let mut last_rid = 0u64;
                let mut fail = |st: &mut ReaderStats, msg: String| {
                    if st.errors.len() < 3 {
                        st.errors.push(msg);
                    }
                };
                while !stop.load(SeqCst) {
                    st.reads += 1;
                    match style {
                        // short reads
                        0 => match h.read().check() {
                            Ok(g) => {
                                if g < last_gen {
                                    fail(&mut st, format!("generation went back: {last_gen} -> {g}"));
                                }
                                if g != last_gen {
                                    st.transitions += 1;
                                }
                                last_gen = g;
                            }
                            Err(e) => fail(&mut st, format!("torn/invalid value on a short read: {e}")),
                        },
                        // guard held across yields: value and reload id pinned
                        1 => {
                            let g = h.read();
                            let rid0 = rid_num(h.last_reload_id());
                            let gen0 = match g.check() {
                                Ok(x) => x,
                                Err(e) => {
                                    fail(&mut st, format!("torn value under a fresh guard: {e}"));
                                    continue;
                                }
                            };
                            let serial0 = g.token.serial();
                            for _ in 0..lr.range(1, 20) {
                                std::thread::yield_now();
                                crate::util::spin(lr.below(300) as u64);
                                let rid = rid_num(h.last_reload_id());
                                if g.check() != Ok(gen0) || g.token.serial() != serial0 || rid != rid0 {
                                    fail(&mut st, format!("value or reload id changed while a guard was alive: gen {gen0}->{:?}, id {rid0}->{rid}", g.check()));
                                    break;
                                }
                            }
                            st.guard_holds += 1;
                            if gen0 < last_gen || rid0 < last_rid {
                                fail(&mut st, format!("generation / id went back: ({last_gen},{last_rid}) -> ({gen0},{rid0})"));
                            }
                            if gen0 != last_gen {
                                st.transitions += 1;
                            }
                            last_gen = gen0;
                            last_rid = rid0;
                        }
                        // mapped guard
                        2 => {
                            let g = AssetReadGuard::map(h.read(), |b: &Big| &b.words[..]);
                            let first = g[0];
                            std::thread::yield_now();
                            if g.iter().any(|w| *w != first) {
                                fail(&mut st, "mixed words through a mapped guard".into());
                            }
                            if first < last_gen {
                                fail(&mut st, format!("generation went back: {last_gen} -> {first}"));
                            }
                            if first != last_gen {
                                st.transitions += 1;
                            }
                            last_gen = first;
                            st.guard_holds += 1;
                        }
                        // try_map + untyped downcast
                        3 => {
                            let ug = h.as_untyped().read();
                            match ug.downcast::<Big>() {
                                Ok(g) => {
                                    let g = match AssetReadGuard::try_map(g, |b: &Big| Some(&b.sum)) {
                                        Ok(g) => g,
                                        Err(_) => {
                                            fail(&mut st, "try_map refused".into());
                                            continue;
                                        }
                                    };
                                    let s0 = *g;
                                    std::thread::yield_now();
                                    if *g != s0 {
                                        fail(&mut st, "checksum changed under a try_mapped guard".into());
                                    }
                                    st.guard_holds += 1;
                                }
                                Err(_) => fail(&mut st, "untyped guard did not downcast to the stored type".into()),
                            }
                        }
                        // copies of a multi-word Copy value: `copied` / `cloned` never see a mixture
                        5 => {
                            if st.reads % 3 == 2 {
                                // 12-byte value: every field belongs to one generation
                                let t = if st.reads % 2 == 0 { ht.copied() } else { *ht.read() };
                                if t.0[1] != t.0[0] || t.0[2] != t.0[0] {
                                    fail(&mut st, format!("torn 12-byte value (mixture of generations): {:?}", t.0));
                                }
                                continue;
                            }
                            let w = if st.reads % 2 == 0 { hw.copied() } else { hw.cloned() };
                            match w.check() {
                                Ok(g) => {
                                    if g < last_gen {
                                        fail(&mut st, format!("generation went back: {last_gen} -> {g}"));
                                    }
                                    if g != last_gen {
                                        st.transitions += 1;
                                    }
                                    last_gen = g;
                                }
                                Err(e) => fail(&mut st, format!("torn value from copied()/cloned(): {e}")),
                            }
                        }
                        // a guard on a value no larger than a machine word pins value and reload id too
                        6 => {
                            // one guard per iteration (a second read lock on the same thread could
                            // deadlock behind a waiting writer): plain or mapped
                            let mapped = st.reads % 2 == 0;
                            let rid0;
                            let v0;
                            let mut changed = None;
                            if mapped {
                                let gm = AssetReadGuard::map(hs.read(), |s: &Small| &s.0);
                                rid0 = rid_num(hs.last_reload_id());
                                v0 = Small(*gm);
                                for _ in 0..lr.range(1, 8) {
                                    std::thread::yield_now();
                                    crate::util::spin(lr.below(200) as u64);
                                    let rid = rid_num(hs.last_reload_id());
                                    if Small(*gm) != v0 || rid != rid0 {
                                        changed = Some((Small(*gm), rid));
                                        break;
                                    }
                                }
                            } else {
                                let g = hs.read();
                                rid0 = rid_num(hs.last_reload_id());
                                v0 = *g;
                                for _ in 0..lr.range(1, 8) {
                                    std::thread::yield_now();
                                    crate::util::spin(lr.below(200) as u64);
                                    let rid = rid_num(hs.last_reload_id());
                                    if *g != v0 || rid != rid0 {
                                        changed = Some((*g, rid));
                                        break;
                                    }
                                }
                            }
                            if let Some((now, rid)) = changed {
                                fail(&mut st, format!("value or reload id changed while a guard was alive (word-sized value): {v0:?}->{now:?}, id {rid0}->{rid}"));
                            }
                            st.guard_holds += 1;
                            if (v0.0 as u64) < last_gen {
                                fail(&mut st, format!("generation went back: {last_gen} -> {}", v0.0));
                            }
                            if v0.0 as u64 != last_gen {
                                st.transitions += 1;
                            }
                            last_gen = v0.0 as u64;
                            // leave the writer a chance
                            std::thread::yield_now();
                        }
                        // a compound holding a snapshot of the big value
                        _ => {
                            let g = hn.read();
                            match g.trace.first() {
                                Some(V::Big(x)) => {
                                    if *x < last_gen {
                                        fail(&mut st, format!("compound generation went back: {last_gen} -> {x}"));
                                    }
                                    if *x != last_gen {
                                        st.transitions += 1;
                                    }
                                    last_gen = *x;
                                }
                                other => fail(&mut st, format!("unexpected compound value {other:?}")),
                            }
                            if !g.token.is_live() {
                                fail(&mut st, "compound value reachable through a guard was already dropped".into());
                            }
                        }
                    }
                }
                *stats[r].lock().unwrap() = st;
            });
        }
        // the stream of reloads
        for g in 1..=reloads {
            mem.write("b", "big", g.to_string().as_bytes());
            mem.write("b", "wide", g.to_string().as_bytes());
            mem.write("b", "small", g.to_string().as_bytes());
            mem.write("b", "tri", g.to_string().as_bytes());
            mem.notify_file("b", "tri");
            mem.notify_file("b", "big");
            mem.notify_file("b", "wide");
            mem.notify_file("b", "small");
            if g % 8 == 0 {
                let sent = mem.sent();
                let _ = crate::util::wait_until(120_000, || cache.verif_events_handled().is_some_and(|n| n >= sent));
            }
            for _ in 0..rng.below(4) {
                std::thread::yield_now();
            }
        }
        let sent = mem.sent();
        let ok = crate::util::wait_until(if cfg!(miri) { 600_000 } else { 120_000 }, || {
            cache.verif_events_handled().is_some_and(|n| n >= sent)
        });
        stop.store(true, SeqCst);
        if !ok {
            rep.inconclusive("enhanced: final barrier watchdog");
        }
    });
    CTX.loader_spin.store(0, SeqCst);
    let scen = json!({"part": "enhanced", "round": round, "readers": readers, "reloads": reloads, "loader_spin": spin});
    let mut transitions = 0;
    for (i, m) in stats.iter().enumerate() {
        let st = m.lock().unwrap();
        rep.count("reads", st.reads);
        rep.count("guard_holds", st.guard_holds);
        transitions += st.transitions;
        for e in &st.errors {
            let sig = if e.contains("torn") || e.contains("mixed") {
                "C07/torn-read"
            } else if e.contains("while a guard") || e.contains("under a") {
                "C07/changed-under-guard"
            } else if e.contains("went back") {
                "C07/value-went-back"
            } else {
                "C07/reader-error"
            };
            rep.violation("reader", sig, json!({"reader": i, "style": (i + round) % STYLES, "what": e}), scen.clone());
        }
    }
    rep.count("reads_that_saw_a_new_generation", transitions);
    if ht.copied() != Tri([reloads as u32; 3]) && rep.inconclusive.is_empty() {
        rep.violation("final-value", "C07/torn-read", json!({"what": "12-byte value after the last reload is a mixture or stale", "got": format!("{:?}", ht.copied()), "want": reloads}), scen.clone());
    }
    // after the last barrier everybody sees the last generation
    if h.read().check() != Ok(reloads) && rep.inconclusive.is_empty() {
        rep.violation("final-value", "C07/final-value", json!({"got": format!("{:?}", h.read().check()), "want": reloads}), scen.clone());
    }
    rep.nontrivial(mix(0xa, mix(readers as u64, mix(reloads, transitions.min(1)))));
    if round == 0 {
        rep.sample(json!({"scenario": scen, "reads_that_saw_a_new_generation": transitions}));
    }
}

/// Part B: local mode. Values change only while a thread is inside
/// `hot_reload`, and the call does not return before its reloads are done.
fn local(rep: &mut Report, rng: &mut Rng, round: usize, calls: u64, callers: usize) {
    let mem = Mem::new("c07b", Hot::Yes);
    mem.set_logging(false);
    mem.write("b", "big", b"0");
    let cache = AssetCache::with_source(mem.clone());
    let h = cache.load::<Big>("b").expect("load big");
    let stop = AtomicBool::new(false);
    let next_gen = AtomicU64::new(1);
    // (enter tick, exit tick) of every hot_reload call
    let intervals: Mutex<Vec<(u64, u64)>> = Mutex::new(vec![]);
    // (tick before, reload id, generation, tick after)
    let samples: Mutex<Vec<(u64, u64, u64, u64)>> = Mutex::new(vec![]);
    let errors: Mutex<Vec<String>> = Mutex::new(vec![]);
    let spin = rng.below(3) as u64 * 3000;
    CTX.loader_spin.store(spin, SeqCst);
    let write_lock = Mutex::new(());
    std::thread::scope(|s| {
        s.spawn(|| {
            let mut local = Vec::with_capacity(1 << 16);
            while !stop.load(SeqCst) {
                let t0 = tick();
                let (rid, gen) = {
                    let g = h.read();
                    (rid_num(h.last_reload_id()), g.check())
                };
                let t1 = tick();
                match gen {
                    Ok(g) => {
                        if local.len() < (1 << 20) {
                            local.push((t0, rid, g, t1));
                        }
                    }
                    Err(e) => errors.lock().unwrap().push(format!("torn read in the sampler: {e}")),
                }
            }
            *samples.lock().unwrap() = local;
        });
        let mut hs = vec![];
        for c in 0..callers {
            let (cache, mem, next_gen, intervals, errors, write_lock) = (&cache, &mem, &next_gen, &intervals, &errors, &write_lock);
            hs.push(s.spawn(move || {
                for _ in 0..calls {
                    // edits are serialised so that "the generation I wrote" is well defined
                    let (g, target) = {
                        let _l = write_lock.lock().unwrap();
                        let g = next_gen.fetch_add(1, SeqCst);
                        mem.write("b", "big", g.to_string().as_bytes());
                        mem.notify_file("b", "big");
                        (g, mem.sent())
                    };
                    while cache.verif_events_handled().is_some_and(|n| n < target) {
                        std::thread::yield_now();
                    }
                    let enter = tick();
                    cache.hot_reload();
                    let exit = tick();
                    intervals.lock().unwrap().push((enter, exit));
                    // the reload this call triggered is finished
                    let after = h.read().check();
                    match after {
                        Ok(x) if x >= g => {}
                        other => errors.lock().unwrap().push(format!(
                            "caller {c}: hot_reload returned before its reload was finished: wrote generation {g}, read {other:?} right after return"
                        )),
                    }
                }
            }));
        }
        for h in hs {
            let _ = h.join();
        }
        stop.store(true, SeqCst);
    });
    CTX.loader_spin.store(0, SeqCst);
    let scen = json!({"part": "local", "round": round, "callers": callers, "calls_per_caller": calls, "loader_spin": spin});
    for e in errors.into_inner().unwrap().into_iter().take(3) {
        let sig = if e.contains("torn") { "C07/torn-read" } else { "C07/returned-before-reload-finished" };
        rep.violation("local", sig, json!(e), scen.clone());
    }
    // every observed change must overlap a hot_reload call
    let samples = samples.into_inner().unwrap();
    let mut intervals = intervals.into_inner().unwrap();
    intervals.sort();
    let mut changes = 0u64;
    let mut bad: Option<serde_json::Value> = None;
    for w in samples.windows(2) {
        let (a, b) = (w[0], w[1]);
        if (a.1, a.2) != (b.1, b.2) {
            changes += 1;
            if b.1 < a.1 || b.2 < a.2 {
                bad = Some(json!({"what": "reload id or generation went back", "from": [a.1, a.2], "to": [b.1, b.2]}));
            }
            // the change happened between a.before (a.0) and b.after (b.3)
            let overlaps = intervals.iter().any(|(enter, exit)| *enter <= b.3 && *exit >= a.0);
            if !overlaps && bad.is_none() {
                bad = Some(json!({"what": "cached value changed while no thread was inside hot_reload",
                    "sample_before": {"ticks": [a.0, a.3], "reload_id": a.1, "generation": a.2},
                    "sample_after": {"ticks": [b.0, b.3], "reload_id": b.1, "generation": b.2}}));
            }
        }
    }
    if let Some(b) = bad {
        rep.violation("changed-outside-hot-reload", "C07/changed-outside-hot-reload", b, scen.clone());
    }
    rep.count("sampler_reads", samples.len() as u64);
    rep.count("sampler_observed_changes", changes);
    rep.count("hot_reload_calls", intervals.len() as u64);
    rep.nontrivial(mix(0xb, mix(callers as u64, mix(calls, changes.min(1)))));
    if round == 0 {
        rep.sample(json!({"scenario": scen, "sampler_reads": samples.len(), "observed_changes": changes}));
    }
}

pub fn run(args: &Args) -> Report {
    let mut rep = Report::new(args);
    rep.rule = "(A) enhance_hot_reloading mode: M in 1..12 reader threads (short reads, guards held across yields, \
                mapped / try_mapped guards, untyped guards downcast, a compound snapshot) against a stream of reloads \
                of a 4 KiB self-checking value (all words equal + checksum + live token); (B) hot_reload() mode: 1..4 \
                callers and a sampler that records (logical time before, reload id, generation, logical time after) \
                of every read; every observed change must overlap the [enter, exit] interval of some hot_reload call \
                and each caller must read at least its own generation right after return. A round is non-trivial \
                when readers really saw values change; distinct = distinct (part, threads, reloads) shapes"
        .into();
    let miri = cfg!(miri);
    let mut rng = Rng::new(args.seed).sub(7 + args.shard as u64 * 1000);
    CTX.log_on.store(false, SeqCst);
    let rounds = if miri { 1 } else { args.n(8, 12) };
    for round in 0..rounds {
        rep.eval();
        let readers = if miri { 2 + round % 2 } else { rng.range(1, 12) };
        let reloads = if miri { 3 } else { args.n(300, 800) as u64 };
        enhanced(&mut rep, &mut rng, round, readers, reloads);
    }
    for round in 0..rounds {
        rep.eval();
        let callers = if miri { 1 } else { rng.range(1, 4) };
        let calls = if miri { 3 } else { args.n(200, 800) as u64 / callers as u64 };
        local(&mut rep, &mut rng, round, calls, callers);
    }
    // the floors follow the workload (sanitizer builds run a fraction of it)
    let f = |n: u64| ((n as f64 * args.scale.min(1.0)) as u64).max(1);
    rep.floor("reads_that_saw_a_new_generation", rep.get("reads_that_saw_a_new_generation"), if miri { 1 } else { f(500) });
    rep.floor("sampler_observed_changes", rep.get("sampler_observed_changes"), if miri { 1 } else { f(300) });
    rep.floor("guard_holds", rep.get("guard_holds"), if miri { 1 } else { f(1000) });
    rep
}
