//! C04 — every source shows the same tree: FileSystem, Zip, Tar, Embedded.

use crate::rng::{fnv_str, mix, Rng};
use crate::trees::{gen_tree, materialise, GenTree, Truth};
use crate::{Args, Report};
use assets_manager::source::{DirEntry, Source};
use serde_json::{json, Value};
use std::collections::BTreeMap;
use std::io::ErrorKind;

/// Compares one source with the ground truth; every divergence is a violation
/// whose signature names the source kind, whether the form carries directory
/// members, and the clause.
pub fn check_source(rep: &mut Report, prop: &str, src: &dyn Source, truth: &Truth, kind: &str, dir_members: bool, scen: &Value) -> u64 {
    let mut probes = 0u64;
    let form = if kind == "tar" || kind == "zip" {
        format!("{kind}:{}", if dir_members { "with-dir-members" } else { "no-dir-members" })
    } else {
        kind.to_string()
    };
    let mut bad = |rep: &mut Report, clause: &str, detail: Value| {
        rep.violation(clause, &format!("{prop}/{form}:{clause}"), detail, scen.clone());
    };
    // ---- directories: each direct child exactly once, right kind / id / extension
    for d in &truth.dirs {
        probes += 1;
        let mut got: Vec<String> = vec![];
        let r = src.read_dir(d, &mut |e| {
            got.push(match e {
                DirEntry::File(i, x) => format!("f:{i}:{x}"),
                DirEntry::Directory(i) => format!("d:{i}"),
            })
        });
        got.sort();
        let want = truth.children(d);
        if truth.lenient {
            // what the unrepresentable names turn into is not specified
            got.retain(|g| want.contains(g));
        }
        match r {
            Err(e) => bad(rep, "directory-unreadable", json!({"dir": d, "error": e.to_string(), "kind": format!("{:?}", e.kind())})),
            Ok(()) => {
                if got != want {
                    let mut dups = got.clone();
                    dups.dedup();
                    let missing: Vec<&String> = want.iter().filter(|w| !got.contains(w)).collect();
                    let extra: Vec<&String> = got.iter().filter(|g| !want.contains(g)).collect();
                    let clause = if dups.len() != got.len() && missing.is_empty() && extra.is_empty() {
                        "child-listed-twice"
                    } else if !missing.is_empty() && missing.iter().all(|m| m.starts_with("d:")) && extra.is_empty() {
                        "subdirectory-not-listed"
                    } else {
                        "wrong-listing"
                    };
                    bad(rep, clause, json!({"dir": d, "missing": missing, "unexpected": extra, "listed": got.len(), "expected": want.len()}));
                }
            }
        }
        if !src.exists(DirEntry::Directory(d)) {
            bad(rep, "exists-denies-directory", json!({"dir": d}));
        }
    }
    // ---- files: exact bytes, exists
    for ((id, ext), content) in &truth.files {
        probes += 1;
        match src.read(id, ext) {
            Ok(c) => {
                if c.as_ref() != &content[..] {
                    bad(rep, "wrong-bytes", json!({"id": id, "ext": ext, "got_len": c.as_ref().len(), "want_len": content.len()}));
                }
            }
            Err(e) => bad(rep, "listed-file-unreadable", json!({"id": id, "ext": ext, "error": e.to_string()})),
        }
        if !src.exists(DirEntry::File(id, ext)) {
            bad(rep, "exists-denies-file", json!({"id": id, "ext": ext}));
        }
    }
    // ---- absent entries are reported as not found
    let mut absent: Vec<(String, String)> = vec![("nope".into(), "a".into()), ("no.such.thing".into(), "".into())];
    for (id, ext) in truth.files.keys().take(6) {
        absent.push((id.clone(), format!("{ext}x")));
        absent.push((format!("{id}q"), ext.clone()));
    }
    for (id, ext) in absent {
        if truth.files.contains_key(&(id.clone(), ext.clone())) {
            continue;
        }
        probes += 1;
        match src.read(&id, &ext) {
            Ok(_) => bad(rep, "absent-file-readable", json!({"id": id, "ext": ext})),
            Err(e) if e.kind() != ErrorKind::NotFound => {
                bad(rep, "absent-file-not-notfound", json!({"id": id, "ext": ext, "kind": format!("{:?}", e.kind())}))
            }
            Err(_) => {}
        }
        if src.exists(DirEntry::File(&id, &ext)) {
            bad(rep, "exists-claims-absent-file", json!({"id": id, "ext": ext}));
        }
    }
    for d in ["ghost", "no.such.dir"] {
        if truth.dirs.contains(d) {
            continue;
        }
        probes += 1;
        match src.read_dir(d, &mut |_| {}) {
            Ok(()) => bad(rep, "absent-directory-listable", json!({"dir": d})),
            Err(e) if e.kind() != ErrorKind::NotFound => bad(rep, "absent-directory-not-notfound", json!({"dir": d, "kind": format!("{:?}", e.kind())})),
            Err(_) => {}
        }
        if src.exists(DirEntry::Directory(d)) {
            bad(rep, "exists-claims-absent-directory", json!({"dir": d}));
        }
    }
    // ---- kind-confused absent entries: a directory asked for as an
    // extension-less file, an extension-less file asked for as a directory
    for d in truth.dirs.iter().filter(|d| !d.is_empty()) {
        if truth.files.contains_key(&(d.clone(), String::new())) {
            continue;
        }
        probes += 1;
        if src.exists(DirEntry::File(d, "")) {
            bad(rep, "exists-confuses-directory-with-file", json!({"id": d}));
        }
        match src.read(d, "") {
            Ok(_) => bad(rep, "directory-readable-as-file", json!({"id": d})),
            Err(e) if e.kind() != ErrorKind::NotFound => {
                bad(rep, "directory-read-as-file-not-notfound", json!({"id": d, "kind": format!("{:?}", e.kind())}))
            }
            Err(_) => {}
        }
    }
    for (id, _) in truth.files.keys().filter(|(_, x)| x.is_empty()) {
        if truth.dirs.contains(id) {
            continue;
        }
        probes += 1;
        if src.exists(DirEntry::Directory(id)) {
            bad(rep, "exists-confuses-file-with-directory", json!({"id": id}));
        }
        match src.read_dir(id, &mut |_| {}) {
            Ok(()) => bad(rep, "file-listable-as-directory", json!({"id": id})),
            Err(e) if e.kind() != ErrorKind::NotFound => {
                bad(rep, "file-listed-as-directory-not-notfound", json!({"id": id, "kind": format!("{:?}", e.kind())}))
            }
            Err(_) => {}
        }
    }
    probes
}

pub fn tree_scenario(t: &GenTree, index: usize, label: &str, detail: &Value) -> Value {
    json!({"tree_index": index, "source": label, "form": detail, "tree": t.describe()})
}

pub fn run(args: &Args) -> Report {
    let mut rep = Report::new(args);
    rep.rule = "generated trees (depth <= 4; names with ASCII, unicode, spaces; empty extension; one stem with several \
                extensions; a directory and a file sharing an id; paths > 100 bytes; implied-only and empty \
                directories; contents empty / NUL / 4 KiB / random) materialised on disk, as tar (GNU long names) and \
                zip (stored / deflated) written in-process with natural / dirs-last / shuffled member order, with and \
                without directory members, with './' prefixes, and independently by python3 tarfile (GNU, PAX) / \
                zipfile, each opened in memory and file-backed; the ground truth is the generated tree: every \
                directory's exact child multiset, every file's bytes, exists, NotFound for absent and kind-confused \
                entries; 8 threads then read one source at once. Embedded sources are checked by the generated \
                embed_gen crate (mode gen-embed). Non-trivial = a (tree, form) pair with at least one file and one \
                sub-directory; distinct = distinct (tree, form)"
        .into();
    if args.mode.as_deref() == Some("gen-embed") {
        return gen_embed(args, rep);
    }
    let miri = cfg!(miri);
    let ntrees = if miri { 1 } else { args.n(40, 600) };
    let base = Rng::new(args.seed).sub(4);
    for i in 0..ntrees {
        if i % args.nshards != args.shard {
            continue;
        }
        let mut r = base.sub(i as u64);
        let t = gen_tree(&mut r, i);
        let m = materialise(&t, &mut r, "c04", true);
        for (what, err) in &m.open_errors {
            rep.violation(
                "source-does-not-open",
                &format!("C04/{}:source-does-not-open", what.split(':').next().unwrap_or("?")),
                json!({"source": what, "error": err}),
                tree_scenario(&t, i, what, &json!({})),
            );
        }
        for c in &t.classes {
            rep.seen("name_classes", c);
        }
        for (form, src) in &m.sources {
            rep.eval();
            let truth = t.truth(form.dir_members);
            let scen = tree_scenario(&t, i, &form.label, &form.detail);
            let probes = check_source(&mut rep, "C04", &**src, &truth, form.kind, form.dir_members, &scen);
            rep.count("probes", probes);
            rep.seen("forms", &format!("{}:{}:{}", form.kind, form.detail.get("writer").and_then(|w| w.as_str()).unwrap_or("-"), if form.dir_members { "dirs" } else { "nodirs" }));
            if !truth.files.is_empty() && truth.dirs.len() > 1 {
                rep.nontrivial(mix(fnv_str(&form.label), i as u64));
            }
        }
        // several threads reading one source at once
        if !miri {
            for (form, src) in m.sources.iter().filter(|(f, _)| f.label.ends_with(":file") || f.kind == "filesystem").take(3) {
                let truth = t.truth(form.dir_members);
                let wrong = std::sync::atomic::AtomicU64::new(0);
                let reads = std::sync::atomic::AtomicU64::new(0);
                std::thread::scope(|s| {
                    for th in 0..8 {
                        let (truth, wrong, reads) = (&truth, &wrong, &reads);
                        let src: &(dyn Source + Send + Sync) = &**src;
                        s.spawn(move || {
                            let keys: Vec<_> = truth.files.iter().collect();
                            for k in 0..keys.len() * 3 {
                                let ((id, ext), content) = keys[(k * 7 + th) % keys.len().max(1)];
                                match src.read(id, ext) {
                                    Ok(c) if c.as_ref() == &content[..] => {}
                                    _ => {
                                        wrong.fetch_add(1, std::sync::atomic::Ordering::SeqCst);
                                    }
                                }
                                reads.fetch_add(1, std::sync::atomic::Ordering::SeqCst);
                            }
                        });
                    }
                });
                rep.count("concurrent_reads", reads.into_inner());
                let w = wrong.into_inner();
                if w > 0 {
                    rep.violation(
                        "concurrent-read-wrong",
                        &format!("C04/{}:concurrent-read-wrong-bytes", form.kind),
                        json!({"wrong_reads": w}),
                        tree_scenario(&t, i, &form.label, &form.detail),
                    );
                }
            }
        }
        if rep.samples.len() < 2 {
            rep.sample(json!({"tree": t.describe(), "forms": m.sources.iter().map(|(f, _)| f.label.clone()).collect::<Vec<_>>()}));
        }
    }
    rep.floor_set("name_classes", if miri { 2 } else { 9 });
    rep.floor_set("forms", if miri { 2 } else { 9 });
    rep
}

/// Writes `n` trees to disk plus a `main.rs` embedding each of them, for the
/// generated `embed_gen` crate (built and run by the driver).
fn gen_embed(args: &Args, mut rep: Report) -> Report {
    let dir = std::path::PathBuf::from(args.extra.iter().position(|a| a == "--embed-dir").and_then(|i| args.extra.get(i + 1)).expect("--embed-dir"));
    let n = args.n(10, 60);
    let base = Rng::new(args.seed).sub(4);
    let mut main = String::from("// generated by `vh C04 --mode gen-embed`\nuse assets_manager::source::{embed, Embedded};\nfn main() {\n    let mut run = vh::props::c04::EmbedRun::new();\n");
    let mut specs: BTreeMap<String, Value> = BTreeMap::new();
    for i in 0..n {
        let mut r = base.sub(1_000_000 + i as u64);
        let t = gen_tree(&mut r, i);
        let root = dir.join(format!("tree{i}"));
        crate::trees::write_to_disk(&t, &root);
        let truth = t.truth(true);
        specs.insert(
            format!("tree{i}"),
            json!({"files": truth.files.iter().map(|((id, ext), c)| json!([id, ext, c])).collect::<Vec<_>>(),
                   "dirs": truth.dirs, "lenient": truth.lenient, "describe": t.describe()}),
        );
        main.push_str(&format!(
            "    run.check({i}, &Embedded::from(embed!({:?})));\n",
            root.to_str().unwrap()
        ));
        rep.eval();
        rep.nontrivial(i as u64);
    }
    main.push_str(&format!("    run.finish({:?});\n}}\n", dir.join("spec.json").to_str().unwrap()));
    std::fs::write(dir.join("spec.json"), serde_json::to_string(&specs).unwrap()).unwrap();
    std::fs::write(dir.join("main.rs"), main).unwrap();
    rep.sample(json!({"trees_written": n, "dir": dir}));
    rep
}

/// Used by the generated `embed_gen` program.
pub struct EmbedRun {
    pending: Vec<(usize, Vec<(String, Value)>)>,
    checks: Vec<(usize, Box<dyn Fn(&mut Report, &Truth, &Value) -> u64>)>,
}

impl Default for EmbedRun {
    fn default() -> Self {
        Self::new()
    }
}

impl EmbedRun {
    pub fn new() -> Self {
        EmbedRun { pending: vec![], checks: vec![] }
    }

    pub fn check(&mut self, index: usize, src: &assets_manager::source::Embedded<'static>) {
        let src = src.clone();
        self.checks.push((
            index,
            Box::new(move |rep, truth, scen| {
                if rep.args.prop == "C11" {
                    crate::props::c11::check_dirs(rep, "C11", Box::new(src.clone()), truth, "embedded", true, scen)
                } else {
                    check_source(rep, "C04", &src, truth, "embedded", true, scen)
                }
            }),
        ));
        let _ = &self.pending;
    }

    pub fn finish(self, spec_path: &str) {
        let argv: Vec<String> = std::env::args().skip(1).collect();
        let args = Args::parse(&argv);
        let mut rep = Report::new(&args);
        rep.rule = "embedded form of generated trees (embed! at compile time of the generated embed_gen crate) against the generated tree".into();
        let specs: BTreeMap<String, Value> = serde_json::from_str(&std::fs::read_to_string(spec_path).expect("spec")).expect("spec json");
        for (i, f) in self.checks {
            let spec = &specs[&format!("tree{i}")];
            let mut truth = Truth::default();
            truth.lenient = spec["lenient"].as_bool().unwrap_or(false);
            for f in spec["files"].as_array().unwrap() {
                let bytes: Vec<u8> = f[2].as_array().unwrap().iter().map(|b| b.as_u64().unwrap() as u8).collect();
                truth.files.insert((f[0].as_str().unwrap().to_string(), f[1].as_str().unwrap().to_string()), bytes);
            }
            for d in spec["dirs"].as_array().unwrap() {
                truth.dirs.insert(d.as_str().unwrap().to_string());
            }
            rep.eval();
            let scen = json!({"tree_index": i, "source": "embedded", "tree": spec["describe"]});
            let probes = f(&mut rep, &truth, &scen);
            rep.count("probes", probes);
            rep.seen("forms", "embedded:macro:dirs");
            rep.nontrivial(mix(0xe3bed, i as u64));
            if rep.samples.is_empty() {
                rep.sample(json!({"kind": "embedded", "tree": spec["describe"]}));
            }
        }
        rep.finish()
    }
}
