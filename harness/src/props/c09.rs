//! C09 — faults while loading are contained (fault enumeration).
//!
//! For each scenario a clean run records every source read `(id, ext, n-th
//! read of it)` and every loader invocation `(type, key, n-th invocation)` of
//! the phase under test; then the scenario is re-run once per fault point and
//! fault kind, followed by a recording probe, repair and retry.

use crate::assets::*;
use crate::mem::{FaultKey, Op as MemOp};
use crate::model::Key;
use crate::props::c05::Gen;
use crate::reload::{CacheKind, Judge, Step, World, WorldCfg};
use crate::rng::{fnv_str, mix, Rng};
use crate::{Args, Report};
use serde_json::{json, Value};
use std::collections::BTreeSet;
use std::io::ErrorKind;
use std::sync::atomic::{AtomicU64, Ordering::SeqCst};

const KINDS: [ErrorKind; 6] = [
    ErrorKind::NotFound,
    ErrorKind::PermissionDenied,
    ErrorKind::Interrupted,
    ErrorKind::UnexpectedEof,
    ErrorKind::InvalidData,
    ErrorKind::Other,
];

#[derive(Clone, Copy, Debug, PartialEq, Eq)]
pub enum Phase {
    /// the fault hits an initial load on the calling thread
    Initial,
    /// the fault hits a reload on the reloader thread
    Reload,
}

#[derive(Clone, Debug, PartialEq, Eq)]
pub enum Fault {
    /// `occ == usize::MAX`: every read of the entry during the phase fails
    Read { id: String, ext: String, dir: bool, occ: usize, kind: ErrorKind },
    /// `occ == usize::MAX`: every invocation of that loader during the phase fails
    Loader { tag: String, key: String, occ: usize, fault: LoaderFault },
}

impl Fault {
    fn describe(&self) -> Value {
        match self {
            Fault::Read { id, ext, dir, occ, kind } => {
                json!({"read": format!("{}{id}.{ext} #{}", if *dir { "dir:" } else { "" }, if *occ == usize::MAX { "every".to_string() } else { occ.to_string() }), "kind": format!("{kind:?}")})
            }
            Fault::Loader { tag, key, occ, fault } => json!({"loader": format!("{tag} {key} #{}", if *occ == usize::MAX { "every".to_string() } else { occ.to_string() }), "fault": format!("{fault:?}")}),
        }
    }
    fn is_reload_panic(&self, phase: Phase) -> bool {
        phase == Phase::Reload && matches!(self, Fault::Loader { fault: LoaderFault::Panic, .. })
    }
}

pub struct Scn {
    pub seed: u64,
    pub phase: Phase,
    files: Vec<(String, String, String)>,
    setup: Vec<Step>,
    edits: Vec<Step>,
    faulted: Vec<Step>,
    renotify: Vec<Step>,
    universe: Vec<(usize, Key)>,
}

pub fn build(seed: u64, phase: Phase) -> Scn {
    let mut r = Rng::new(seed).sub(909);
    let n = r.range(3, 6);
    let l = r.range(2, 3);
    let mut g = Gen::new(n, l);
    let mut files = vec![];
    for leaf in g.leaves.clone() {
        let c = g.leaf_content(&leaf);
        files.push((leaf.clone(), "a".to_string(), c));
        if r.chance(1, 3) {
            let c = g.leaf_content(&leaf);
            files.push((leaf.clone(), "m1".to_string(), c));
        }
    }
    for i in (0..n).rev() {
        let mut rec = g.recipe(&mut r, i, &BTreeSet::new(), true);
        // some nested compound loads are guarded by catch_unwind and followed by
        // a further read: a panic below must not disturb what the outer load
        // records afterwards
        if r.chance(1, 2) {
            let mut out = vec![];
            for op in rec {
                match op {
                    Op::Load { ty: Ty::Node(k), id } | Op::Try { ty: Ty::Node(k), id } => {
                        out.push(Op::Catch(vec![Op::Load { ty: Ty::Node(k), id }]));
                        out.push(Op::File { id: g.leaves[0].clone(), ext: "a".into() });
                    }
                    other => out.push(other),
                }
            }
            rec = out;
        }
        files.push((g.nodes[i].clone(), "n0".to_string(), render_recipe(&rec)));
    }
    let mut universe: Vec<(usize, Key)> = vec![];
    for node in &g.nodes {
        universe.push((0, (Ty::Node(0), node.clone())));
    }
    for leaf in &g.leaves {
        universe.push((0, (LEAF_A, leaf.clone())));
        universe.push((0, (LEAF_M, leaf.clone())));
    }
    universe.push((0, (Ty::Dir(Elem::LeafA), "l".to_string())));
    let roots: Vec<String> = {
        let k = r.range(1, 2.min(n));
        (0..k).map(|i| g.nodes[i].clone()).collect()
    };
    let load_roots: Vec<Step> = roots
        .iter()
        .map(|id| Step::Load { c: 0, ty: Ty::Node(0), id: id.clone() })
        .collect();
    let (setup, edits, faulted, renotify) = match phase {
        Phase::Initial => {
            let mut setup = vec![];
            if r.chance(1, 2) {
                setup.push(Step::Load { c: 0, ty: LEAF_A, id: g.leaves[0].clone() });
            }
            (setup, vec![], load_roots, vec![])
        }
        Phase::Reload => {
            let mut edits = vec![];
            let mut entries = vec![];
            let k = r.range(1, 2);
            for _ in 0..k {
                let leaf = r.pick(&g.leaves).clone();
                let c = g.leaf_content(&leaf);
                edits.push(Step::Write { c: 0, id: leaf.clone(), ext: "a".into(), content: c });
                entries.push((false, leaf, "a".to_string()));
            }
            entries.dedup();
            let batched = r.chance(1, 2);
            let notify = Step::Notify { c: 0, entries, batched };
            edits.push(notify.clone());
            (load_roots, edits, vec![Step::Pass { c: 0 }], vec![notify, Step::Pass { c: 0 }])
        }
    };
    Scn { seed, phase, files, setup, edits, faulted, renotify, universe }
}

fn judge() -> Judge {
    let mut j = Judge::none("C09");
    j.results = true;
    j.values = true;
    j.precision = true;
    j.attribution = true;
    j
}

#[derive(Default, Clone)]
pub struct PhaseLog {
    pub reads: Vec<(String, String, bool)>,
    pub loaders: Vec<(String, String)>,
}

static IN_HOT_RELOAD: AtomicU64 = AtomicU64::new(0);
static CASE_NO: AtomicU64 = AtomicU64::new(0);

/// Runs one scenario with an optional fault; returns the reads / loader
/// invocations of the faulted phase (meaningful for the clean run).
pub fn exec(rep: &mut Report, scn: &Scn, fault: Option<&Fault>, tag: Value) -> (PhaseLog, bool) {
    let j = judge();
    let mut w = World::new(&WorldCfg { caches: vec![CacheKind::Hot], static_mode: false, content_mode: 3 });
    w.tag = tag;
    for (id, ext, c) in &scn.files {
        w.seed_file(0, id, ext, c);
    }
    w.seed_file(0, "probe.p", "n0", "file probe.q a");
    w.seed_file(0, "probe.q", "a", "q0");
    for s in &scn.setup {
        w.apply(s, rep, &j);
    }
    for s in &scn.edits {
        // the notification is sent now; it is consumed at the faulted Pass
        w.apply(s, rep, &j);
    }
    // ---- the phase under test
    w.mems[0].reset_fault_counters();
    w.model.reset_fault_counters();
    CTX.reset_fault_counters();
    let _ = w.mems[0].take_log();
    CTX.log_on.store(true, SeqCst);
    let _ = CTX.take_loader_log();
    let mut fired = true;
    if let Some(f) = fault {
        match f {
            Fault::Read { id, ext, dir, occ, kind } => {
                let key = match (*dir, *occ == usize::MAX) {
                    (true, false) => FaultKey::Dir { id: id.clone(), occ: *occ },
                    (true, true) => FaultKey::DirAlways { id: id.clone() },
                    (false, false) => FaultKey::File { id: id.clone(), ext: ext.clone(), occ: *occ },
                    (false, true) => FaultKey::FileAlways { id: id.clone(), ext: ext.clone() },
                };
                w.mems[0].add_fault(key.clone(), *kind);
                w.model.caches[0].read_faults.push((key, *kind));
            }
            Fault::Loader { tag, key, occ, fault } => {
                CTX.add_loader_fault(tag, key, *occ, *fault);
                w.model.loader_faults.push(((tag.clone(), key.clone(), *occ), *fault));
            }
        }
    }
    crate::util::quiet_panics(true);
    w.faults_active = fault.is_some();
    for s in &scn.faulted {
        IN_HOT_RELOAD.fetch_add(1, SeqCst);
        w.apply(s, rep, &j);
        IN_HOT_RELOAD.fetch_sub(1, SeqCst);
    }
    let log = PhaseLog {
        reads: w.mems[0]
            .take_log()
            .into_iter()
            .filter(|e| e.op != MemOp::Exists)
            .map(|e| (e.id, e.ext, e.op == MemOp::ReadDir))
            .collect(),
        loaders: CTX.take_loader_log().into_iter().map(|e| (e.ty, e.key)).collect(),
    };
    CTX.log_on.store(false, SeqCst);
    if fault.is_some() {
        let f1 = w.mems[0].take_fired().len();
        let f2 = CTX.take_fired().len();
        fired = f1 + f2 > 0;
    }
    // nothing partially built is visible, what was cached is untouched
    w.full_compare(rep, &j, &scn.universe);

    // ---- the calling thread's recording still works: a compound loaded now
    // must be reloaded when the file it read changes
    w.mems[0].clear_faults();
    w.model.clear_faults();
    CTX.clear_loader_faults();
    w.faults_active = false;
    w.apply(&Step::Load { c: 0, ty: Ty::Node(0), id: "probe.p".into() }, rep, &j);
    w.apply(&Step::Write { c: 0, id: "probe.q".into(), ext: "a".into(), content: "q1".into() }, rep, &j);
    w.apply(&Step::Notify { c: 0, entries: vec![(false, "probe.q".into(), "a".into())], batched: false }, rep, &j);
    IN_HOT_RELOAD.fetch_add(1, SeqCst);
    w.apply(&Step::Pass { c: 0 }, rep, &j);
    IN_HOT_RELOAD.fetch_sub(1, SeqCst);

    // ---- repair and retry
    match scn.phase {
        Phase::Initial => {
            for s in &scn.faulted {
                w.apply(s, rep, &j);
            }
        }
        Phase::Reload => {
            for s in &scn.renotify {
                IN_HOT_RELOAD.fetch_add(1, SeqCst);
                w.apply(s, rep, &j);
                IN_HOT_RELOAD.fetch_sub(1, SeqCst);
            }
        }
    }
    w.full_compare(rep, &j, &scn.universe);
    // what was recorded during the (faulted, then repaired) loads is right: one
    // single-entry edit per leaf file, each its own pass, judged by attribution
    let leaves: Vec<(String, String)> = scn
        .files
        .iter()
        .filter(|(id, ext, _)| ext == "a" && id.starts_with("l."))
        .map(|(id, ext, _)| (id.clone(), ext.clone()))
        .collect();
    for (k, (id, ext)) in leaves.into_iter().enumerate() {
        if w.aborted.is_some() {
            break;
        }
        w.apply(&Step::Write { c: 0, id: id.clone(), ext: ext.clone(), content: format!("{id}#sweep{k}") }, rep, &j);
        w.apply(&Step::Notify { c: 0, entries: vec![(false, id, ext)], batched: false }, rep, &j);
        IN_HOT_RELOAD.fetch_add(1, SeqCst);
        w.apply(&Step::Pass { c: 0 }, rep, &j);
        IN_HOT_RELOAD.fetch_sub(1, SeqCst);
    }
    // after the repair every root is loaded / up to date: a fresh load equals the cached value
    for s in &scn.faulted {
        if let Step::Load { ty, id, .. } = s {
            if !w.model.contains(0, *ty, id) && w.model.fresh(0, *ty, id).0.is_ok() {
                w.tag["note"] = json!("root not cached after repair although a fresh load succeeds");
                rep.violation("not-recovered", "C09/not-recovered-after-repair", json!({"root": id}), w.scenario());
            }
        }
    }
    crate::util::quiet_panics(false);
    CASE_NO.fetch_add(1, SeqCst);
    rep.count("passes", w.passes);
    (log, fired)
}

fn fault_points(log: &PhaseLog) -> (Vec<(String, String, bool, usize)>, Vec<(String, String, usize)>) {
    let mut reads = vec![];
    let mut counts: std::collections::HashMap<(String, String, bool), usize> = Default::default();
    for r in &log.reads {
        let c = counts.entry(r.clone()).or_insert(0);
        reads.push((r.0.clone(), r.1.clone(), r.2, *c));
        *c += 1;
    }
    let mut loaders = vec![];
    let mut lc: std::collections::HashMap<(String, String), usize> = Default::default();
    for l in &log.loaders {
        let c = lc.entry(l.clone()).or_insert(0);
        loaders.push((l.0.clone(), l.1.clone(), *c));
        *c += 1;
    }
    (reads, loaders)
}

/// Fault points of a phase.  On the calling thread the order of reads is the
/// model's, so a point is (entry, n-th read).  On the reloader thread the order
/// in which *independent* assets are refreshed depends on hash order, so a
/// point is (entry, every read during the pass): which asset performs the n-th
/// read of a shared file is not predictable, which asset reads it at all is.
fn all_faults(log: &PhaseLog, kinds: &[ErrorKind], phase: Phase) -> Vec<Fault> {
    let (mut reads, mut loaders) = fault_points(log);
    if phase == Phase::Reload {
        for r in &mut reads {
            r.3 = usize::MAX;
        }
        reads.sort();
        reads.dedup();
        for l in &mut loaders {
            l.2 = usize::MAX;
        }
        loaders.sort();
        loaders.dedup();
    }
    let mut out = vec![];
    for (id, ext, dir, occ) in reads {
        for k in kinds {
            out.push(Fault::Read { id: id.clone(), ext: ext.clone(), dir, occ, kind: *k });
        }
    }
    for (tag, key, occ) in loaders {
        for f in [LoaderFault::Err, LoaderFault::Panic] {
            out.push(Fault::Loader { tag: tag.clone(), key: key.clone(), occ, fault: f });
        }
    }
    out
}

/// Child-process mode: runs the reload-panic cases of one scenario under an
/// observer that turns "hot_reload blocked while the reloader thread is gone"
/// into positive evidence.
fn child(args: &Args, mut rep: Report, scn_seed: u64) -> Report {
    let scn = build(scn_seed, Phase::Reload);
    let (clean, _) = exec(&mut rep, &scn, None, json!({"scenario_seed": scn_seed, "fault": "none"}));
    let faults: Vec<Fault> = all_faults(&clean, &[], Phase::Reload).into_iter().filter(|f| f.is_reload_panic(Phase::Reload)).collect();
    #[cfg(not(miri))]
    std::thread::spawn(|| {
        let mut gone_for = 0;
        loop {
            std::thread::sleep(std::time::Duration::from_millis(100));
            let blocked = IN_HOT_RELOAD.load(SeqCst) > 0;
            let reloaders = crate::procfs::reloader_tasks().len();
            if blocked && reloaders == 0 {
                gone_for += 1;
            } else {
                gone_for = 0;
            }
            if gone_for >= 8 {
                println!(
                    "VERDICT deadlock case={} : a call into hot-reloading has been blocked for {} ms while no assets_hot_reload thread exists",
                    CASE_NO.load(SeqCst),
                    gone_for * 100
                );
                std::process::exit(3);
            }
        }
    });
    for (i, f) in faults.iter().enumerate() {
        rep.eval();
        let tag = json!({"scenario_seed": scn_seed, "phase": "Reload", "fault": f.describe(), "child_case": i});
        println!("CASE {} {}", i, f.describe());
        let (_, fired) = exec(&mut rep, &scn, Some(f), tag);
        if fired {
            rep.count("fault_points_fired", 1);
            rep.nontrivial(mix(scn_seed, fnv_str(&format!("{f:?}"))));
        }
    }
    let _ = args;
    rep
}


// ---------------------------------------------------------------------------
// Faults of the medium below an archive source
// ---------------------------------------------------------------------------

/// A persistent `Interrupted` would make `read_exact` / `read_to_end` retry for ever (that is
/// what the kind means), so the medium fails with the other kinds only.
const MEDIUM_KINDS: [ErrorKind; 4] = [ErrorKind::PermissionDenied, ErrorKind::UnexpectedEof, ErrorKind::InvalidData, ErrorKind::Other];

/// A seekable reader over shared bytes of which only a prefix is visible:
/// beyond it a read reports end-of-file or an error, as a truncated file or
/// a failing medium does.
#[derive(Clone)]
struct Medium {
    data: std::sync::Arc<Vec<u8>>,
    visible: std::sync::Arc<std::sync::atomic::AtomicUsize>,
    /// 0 = end of file, k > 0 = MEDIUM_KINDS[k - 1]
    failure: std::sync::Arc<std::sync::atomic::AtomicUsize>,
    pos: u64,
}

impl std::io::Read for Medium {
    fn read(&mut self, buf: &mut [u8]) -> std::io::Result<usize> {
        let vis = self.visible.load(SeqCst).min(self.data.len());
        let pos = self.pos as usize;
        if pos >= vis {
            if buf.is_empty() || vis == self.data.len() {
                return Ok(0);
            }
            return match self.failure.load(SeqCst) {
                0 => Ok(0),
                k => Err(std::io::Error::new(MEDIUM_KINDS[k - 1], "injected medium failure")),
            };
        }
        let n = buf.len().min(vis - pos);
        buf[..n].copy_from_slice(&self.data[pos..pos + n]);
        self.pos += n as u64;
        Ok(n)
    }
}

impl std::io::Seek for Medium {
    fn seek(&mut self, to: std::io::SeekFrom) -> std::io::Result<u64> {
        let new = match to {
            std::io::SeekFrom::Start(p) => p as i64,
            std::io::SeekFrom::End(d) => self.data.len() as i64 + d,
            std::io::SeekFrom::Current(d) => self.pos as i64 + d,
        };
        if new < 0 {
            return Err(std::io::Error::new(ErrorKind::InvalidInput, "seek before start"));
        }
        self.pos = new as u64;
        Ok(self.pos)
    }
}

fn find(hay: &[u8], needle: &[u8]) -> Option<usize> {
    hay.windows(needle.len()).position(|w| w == needle)
}

/// A source read that hits the end (or a failure) of the medium inside a member,
/// after the archive was indexed: the load must fail, nothing may be cached, cached
/// values stay, and the same load succeeds once the medium is whole again.
fn archive_medium(rep: &mut Report, rng: &mut Rng) {
    use assets_manager::source::{Source, Tar, Zip};
    use assets_manager::AssetCache;
    let sizes: &[usize] = if cfg!(miri) { &[1, 700] } else { &[1, 7, 511, 512, 513, 3502, 70_000] };
    for kind in ["tar", "zip-stored"] {
        // members with unique, incompressible contents
        let mut contents: Vec<(String, Vec<u8>)> = vec![("keep".into(), b"kept-value".to_vec())];
        for (i, n) in sizes.iter().enumerate() {
            let mut c = format!("<m{i}:").into_bytes();
            while c.len() < *n {
                c.push(b'a' + (rng.below(26) as u8));
            }
            c.truncate((*n).max(1));
            contents.push((format!("m{i}"), c));
        }
        let bytes: Vec<u8> = if kind == "tar" {
            let mut b = tar::Builder::new(Vec::new());
            for (name, c) in &contents {
                let mut h = tar::Header::new_gnu();
                h.set_size(c.len() as u64);
                h.set_mode(0o644);
                h.set_cksum();
                b.append_data(&mut h, format!("d/{name}.a"), &c[..]).unwrap();
            }
            b.into_inner().unwrap()
        } else {
            use std::io::Write;
            let mut z = zip::ZipWriter::new(std::io::Cursor::new(Vec::new()));
            let opts = zip::write::FileOptions::default().compression_method(zip::CompressionMethod::Stored);
            for (name, c) in &contents {
                z.start_file(format!("d/{name}.a"), opts).unwrap();
                z.write_all(c).unwrap();
            }
            z.finish().unwrap().into_inner()
        };
        let medium = Medium {
            data: std::sync::Arc::new(bytes),
            visible: std::sync::Arc::new(std::sync::atomic::AtomicUsize::new(usize::MAX)),
            failure: Default::default(),
            pos: 0,
        };
        let src: Box<dyn Source + Send + Sync> = if kind == "tar" {
            match Tar::from_reader(medium.clone()) {
                Ok(t) => Box::new(t),
                Err(e) => {
                    rep.inconclusive(&format!("archive-medium: cannot open the tar archive: {e}"));
                    return;
                }
            }
        } else {
            match Zip::from_reader(medium.clone()) {
                Ok(z) => Box::new(z),
                Err(e) => {
                    rep.inconclusive(&format!("archive-medium: cannot open the zip archive: {e}"));
                    return;
                }
            }
        };
        let mut cache = AssetCache::without_hot_reloading(src);
        let kept = cache.load::<Leaf<1, 0, true>>("d.keep").map(|h| h.read().v.clone());
        if kept.is_err() {
            rep.inconclusive("archive-medium: the whole archive does not load");
            return;
        }
        for (i, (name, c)) in contents.iter().enumerate().skip(1) {
            let Some(start) = find(&medium.data, c) else { continue };
            let id = format!("d.{name}");
            let mut cuts = vec![0, 1, c.len() / 2, c.len() - 1];
            cuts.sort();
            cuts.dedup();
            for cut in cuts {
                if cut >= c.len() {
                    continue;
                }
                for failure in 0..=2usize {
                    rep.eval();
                    medium.visible.store(start + cut, SeqCst);
                    medium.failure.store(if failure == 0 { 0 } else { 1 + (i + failure) % MEDIUM_KINDS.len() }, SeqCst);
                    let scen = json!({"part": "medium below an archive source", "archive": kind, "member": format!("d/{name}.a"),
                        "member_size": c.len(), "medium_ends_after_member_bytes": cut,
                        "beyond": if failure == 0 { "end of file".to_string() } else { format!("{:?}", MEDIUM_KINDS[(i + failure) % MEDIUM_KINDS.len()]) }});
                    let got = cache.load::<Leaf<1, 0, true>>(&id).map(|h| h.read().v.clone()).map_err(|e| describe_error(&e));
                    let owned = cache.load_owned::<Leaf<1, 0, true>>(&id).map(|l| l.v.clone()).map_err(|e| describe_error(&e));
                    for (api, g) in [("load", &got), ("load_owned", &owned)] {
                        match g {
                            Err(e) if e.id == id => {}
                            Err(e) => rep.violation("medium", "C09/error-names-wrong-id:archive-medium", json!({"api": api, "error": format!("{e:?}")}), scen.clone()),
                            Ok(v) => rep.violation(
                                "medium",
                                "C09/partial-value-visible:archive-medium",
                                json!({"api": api, "returned": format!("{v:?}"), "true_length": c.len()}),
                                scen.clone(),
                            ),
                        }
                    }
                    if cache.contains::<Leaf<1, 0, true>>(&id) {
                        rep.violation("medium", "C09/failure-cached-something:archive-medium", json!({"id": id}), scen.clone());
                        cache.remove::<Leaf<1, 0, true>>(&id);
                    }
                    // what was cached before is untouched
                    let k2 = cache.get_cached::<Leaf<1, 0, true>>("d.keep").map(|h| h.read().v.clone());
                    if k2.as_ref() != kept.as_ref().ok() {
                        rep.violation("medium", "C09/cached-value-touched:archive-medium", json!({"got": format!("{k2:?}")}), scen.clone());
                    }
                    // repaired: the same load gives the whole member
                    medium.visible.store(usize::MAX, SeqCst);
                    let want = V::Leaf { ext: "a".into(), len: c.len(), hash: content_hash(c) };
                    let again = cache.load_owned::<Leaf<1, 0, true>>(&id).map(|l| l.v.clone()).map_err(|e| describe_error(&e));
                    if again.as_ref().ok() != Some(&want) {
                        rep.violation("medium", "C09/not-recovered-after-repair:archive-medium", json!({"got": format!("{again:?}"), "want": format!("{want:?}")}), scen.clone());
                    }
                    rep.count("archive_medium_faults", 1);
                    rep.nontrivial(mix(fnv_str(kind), mix(i as u64 * 8 + failure as u64, cut as u64)));
                }
            }
        }
        rep.seen("archive_medium_kinds", kind);
    }
}

pub fn run(args: &Args) -> Report {
    let mut rep = Report::new(args);
    rep.rule = "scenarios = generated recipe DAGs (3..6 compounds over 2..3 leaves) in two phases: initial load of the \
                roots on the calling thread, and a reload pass after notified value edits on the reloader thread. A \
                clean run lists every source read (id, ext, n-th read) and every loader invocation (type, key, n-th) \
                of the phase; then one run per read x 6 io::ErrorKinds and per loader invocation x {Err, panic}. Each \
                run is compared step by step with the reference model given the same fault, then a probe checks that \
                dependency recording still works, then the source is repaired and the phase retried. Non-trivial = \
                the injected fault actually fired; distinct = distinct (scenario, fault point, kind)"
        .into();
    let miri = cfg!(miri);
    CTX.log_on.store(false, SeqCst);
    if let Some(m) = &args.mode {
        if let Some(seed) = m.strip_prefix("child:") {
            return child(args, rep, seed.parse().expect("child seed"));
        }
    }
    // under Miri every process takes one scenario (its shard index) and every 15th fault point
    let nscn = if miri { args.nshards } else { args.n(60, 4000) };
    let kinds: &[ErrorKind] = if miri { &KINDS[..2] } else { &KINDS };
    let mut fired_total = 0u64;
    let mut points_total = 0u64;
    for s in 0..nscn {
        if s % args.nshards != args.shard {
            continue;
        }
        let phase = if s % 2 == 0 { Phase::Initial } else { Phase::Reload };
        let scn_seed = args.seed * 1000 + s as u64;
        let scn = build(scn_seed, phase);
        rep.eval();
        let (clean, _) = exec(&mut rep, &scn, None, json!({"scenario_seed": scn_seed, "phase": format!("{phase:?}"), "fault": "none"}));
        let faults = all_faults(&clean, kinds, phase);
        rep.count("read_points", clean.reads.len() as u64);
        rep.count("loader_points", clean.loaders.len() as u64);
        rep.seen("phases", &format!("{phase:?}"));
        let mut child_needed = false;
        for (i, f) in faults.iter().enumerate() {
            if miri && i % 15 != (args.shard * 4) % 15 {
                continue;
            }
            if f.is_reload_panic(phase) {
                // may leave a caller blocked for ever: decided in a child process
                child_needed = true;
                continue;
            }
            rep.eval();
            points_total += 1;
            let tag = json!({"scenario_seed": scn_seed, "phase": format!("{phase:?}"), "fault": f.describe()});
            let (_, fired) = exec(&mut rep, &scn, Some(f), tag.clone());
            if fired {
                fired_total += 1;
                rep.nontrivial(mix(scn_seed, fnv_str(&format!("{f:?}"))));
                match f {
                    Fault::Read { kind, .. } => rep.seen("fault_kinds", &format!("read:{kind:?}")),
                    Fault::Loader { fault, .. } => rep.seen("fault_kinds", &format!("loader:{fault:?}:{phase:?}")),
                }
            }
            if rep.samples.len() < 3 && i % 13 == 5 {
                rep.sample(json!({"scenario_seed": scn_seed, "phase": format!("{phase:?}"), "fault": f.describe(),
                    "files": scn.files.iter().map(|(i, x, c)| format!("{i}.{x}={c}")).collect::<Vec<_>>(),
                    "faulted_steps": scn.faulted.iter().map(|s| s.render()).collect::<Vec<_>>()}));
            }
        }
        if child_needed && !miri {
            run_child(&mut rep, args, scn_seed, &mut fired_total, &mut points_total);
        }
    }
    if args.shard == 0 {
        let mut r = Rng::new(args.seed).sub(0xa7c);
        archive_medium(&mut rep, &mut r);
    }
    rep.count("fault_points_run", points_total);
    rep.count("fault_points_fired", fired_total);
    rep.exhaustive = Some(!miri);
    rep.floor("fault_points_fired", fired_total, if miri { 3 } else { 100 });
    rep.floor_set("phases", if miri { 1 } else { 2 });
    rep.floor_set("fault_kinds", if miri { 2 } else { 9 });
    rep
}

#[cfg(miri)]
fn run_child(_rep: &mut Report, _args: &Args, _scn_seed: u64, _f: &mut u64, _p: &mut u64) {}

#[cfg(not(miri))]
fn run_child(rep: &mut Report, args: &Args, scn_seed: u64, fired_total: &mut u64, points_total: &mut u64) {
    use std::process::{Command, Stdio};
    let exe = std::env::current_exe().expect("current_exe");
    let out = crate::util::scratch_dir("c09child").join("child.json");
    let mut cmd = Command::new(exe);
    cmd.args(["C09", "--tier", &args.tier, "--seed", &args.seed.to_string(), "--build", &args.build, "--mode", &format!("child:{scn_seed}"), "--out"])
        .arg(&out)
        .stdout(Stdio::piped())
        .stderr(Stdio::null());
    let mut ch = match cmd.spawn() {
        Ok(c) => c,
        Err(e) => {
            rep.inconclusive(&format!("could not spawn the child process: {e}"));
            return;
        }
    };
    // generous wall-clock watchdog: its expiry is inconclusive, never a violation
    let start = std::time::Instant::now();
    let status = loop {
        match ch.try_wait() {
            Ok(Some(s)) => break Some(s),
            Ok(None) => {
                if start.elapsed().as_secs() > 600 {
                    let _ = ch.kill();
                    let _ = ch.wait();
                    break None;
                }
                std::thread::sleep(std::time::Duration::from_millis(20));
            }
            Err(_) => break None,
        }
    };
    let mut stdout = String::new();
    if let Some(mut so) = ch.stdout.take() {
        use std::io::Read;
        let _ = so.read_to_string(&mut stdout);
    }
    let last_case = stdout.lines().filter(|l| l.starts_with("CASE ")).last().unwrap_or("").to_string();
    let scen = json!({"scenario_seed": scn_seed, "phase": "Reload", "child_mode": format!("child:{scn_seed}"), "last_case": last_case});
    match status {
        None => rep.inconclusive("child process watchdog expired"),
        Some(st) => {
            use std::os::unix::process::ExitStatusExt;
            if let Some(sig) = st.signal() {
                rep.violation(
                    "process-killed",
                    "C09/process-aborted-by-loader-panic-during-reload",
                    json!({"signal": sig, "stdout_tail": stdout.lines().rev().take(5).collect::<Vec<_>>()}),
                    scen,
                );
            } else if st.code() == Some(3) {
                let verdict = stdout.lines().find(|l| l.starts_with("VERDICT")).unwrap_or("").to_string();
                rep.violation(
                    "hot-reload-never-returns",
                    "C09/hot-reload-never-returns-after-loader-panic",
                    json!({"verdict": verdict}),
                    scen,
                );
            } else {
                // merge the child's own report
                if let Ok(text) = std::fs::read_to_string(&out) {
                    if let Ok(v) = serde_json::from_str::<Value>(&text) {
                        rep.evaluations += v["evaluations"].as_u64().unwrap_or(0);
                        let f = v["counters"]["fault_points_fired"].as_u64().unwrap_or(0);
                        *fired_total += f;
                        *points_total += v["evaluations"].as_u64().unwrap_or(0);
                        if f > 0 {
                            rep.seen("fault_kinds", "loader:Panic:Reload");
                        }
                        for h in v["distinct_hashes"].as_array().into_iter().flatten() {
                            if let Some(h) = h.as_str().and_then(|s| u64::from_str_radix(s, 16).ok()) {
                                rep.nontrivial(h);
                            }
                        }
                        for viol in v["violations"].as_array().into_iter().flatten() {
                            rep.violation(
                                viol["clause"].as_str().unwrap_or("child"),
                                viol["signature"].as_str().unwrap_or("C09/child"),
                                viol["detail"].clone(),
                                viol["scenario"].clone(),
                            );
                        }
                    }
                } else {
                    rep.inconclusive(&format!("child exited with {:?} without a result file", st.code()));
                }
            }
        }
    }
    let _ = std::fs::remove_dir_all(out.parent().unwrap());
}
