//! C15 — the reloader is quiet when idle and goes away with its cache.
//!
//! Positive evidence only: a thread named `assets_hot_relo*` that belongs to
//! an idle cache and accrues CPU, or that still exists after its cache was
//! dropped *and* keeps accruing CPU over several windows.  A thread that has
//! exited, or that sleeps with zero ticks, satisfies the property.

use crate::assets::*;
use crate::mem::{Hot, Mem};
use crate::procfs;
use crate::rng::{mix, Rng};
use crate::{Args, Report};
use assets_manager::source::{DirEntry, FileContent, FileSystem, Source};
use assets_manager::AssetCache;
use serde_json::json;
use std::collections::BTreeSet;
use std::time::Duration;

fn reloader_tids() -> BTreeSet<i32> {
    procfs::reloader_tasks().into_iter().map(|t| t.tid).collect()
}

fn ticks_of(tids: &BTreeSet<i32>) -> u64 {
    tids.iter().filter_map(|t| procfs::task(*t)).map(|t| t.ticks).sum()
}

/// A custom source that forwards to `Mem` but is its own type (keeps the sender itself).
struct Custom(Mem);
impl Source for Custom {
    fn read(&self, id: &str, ext: &str) -> std::io::Result<FileContent<'_>> {
        self.0.read(id, ext)
    }
    fn read_dir(&self, id: &str, f: &mut dyn FnMut(DirEntry)) -> std::io::Result<()> {
        self.0.read_dir(id, f)
    }
    fn exists(&self, e: DirEntry) -> bool {
        self.0.exists(e)
    }
    fn make_source(&self) -> Option<Box<dyn Source + Send>> {
        Some(Box::new(Custom(self.0.clone())))
    }
    fn configure_hot_reloading(&self, events: assets_manager::hot_reloading::EventSender) -> Result<(), assets_manager::BoxedError> {
        self.0.configure_hot_reloading(events)
    }
}

#[derive(Clone, Copy, Debug, PartialEq, Eq)]
enum Src {
    MemKeepsSender,
    SenderKeptByHarness,
    SenderDropped,
    Custom,
    FileSystem,
}

#[derive(Clone, Copy, Debug, PartialEq, Eq)]
enum DropWhen {
    Idle,
    AfterHotReload,
    EventsQueued,
    AfterLoads,
}

struct Live {
    tids: BTreeSet<i32>,
    mems: Vec<Mem>,
    caches: Vec<Box<dyn std::any::Any>>,
    senders: Vec<assets_manager::hot_reloading::EventSender>,
    dirs: Vec<std::path::PathBuf>,
}

fn create(src: Src, n: usize, when: DropWhen) -> Live {
    let before = reloader_tids();
    let mut live = Live { tids: BTreeSet::new(), mems: vec![], caches: vec![], senders: vec![], dirs: vec![] };
    for i in 0..n {
        match src {
            Src::FileSystem => {
                let dir = crate::util::scratch_dir("c15fs");
                std::fs::write(dir.join("x.a"), b"fs-leaf").unwrap();
                let cache = AssetCache::with_source(FileSystem::new(&dir).expect("fs source"));
                if matches!(when, DropWhen::AfterLoads | DropWhen::AfterHotReload) {
                    let _ = cache.load::<Leaf<1, 0, true>>("x");
                }
                if when == DropWhen::EventsQueued {
                    let _ = cache.load::<Leaf<1, 0, true>>("x");
                    std::fs::write(dir.join("x.a"), b"fs-leaf-2").unwrap();
                }
                if when == DropWhen::AfterHotReload {
                    cache.hot_reload();
                }
                live.dirs.push(dir);
                live.caches.push(Box::new(cache));
            }
            _ => {
                let hot = match src {
                    Src::MemKeepsSender | Src::Custom => Hot::Yes,
                    _ => Hot::SenderToHarness,
                };
                let mem = Mem::new(&format!("c15-{i}"), hot);
                mem.write("x", "a", b"leaf");
                mem.write("n", "n0", b"load L10t x");
                macro_rules! drive {
                    ($cache:expr) => {{
                        let cache = $cache;
                        match src {
                            Src::SenderKeptByHarness => {
                                if let Some(s) = mem.take_sender() {
                                    live.senders.push(s);
                                }
                            }
                            Src::SenderDropped => drop(mem.take_sender()),
                            _ => {}
                        }
                        if matches!(when, DropWhen::AfterLoads | DropWhen::AfterHotReload | DropWhen::EventsQueued) {
                            let _ = cache.load::<Node<0>>("n");
                        }
                        if when == DropWhen::EventsQueued {
                            mem.write("x", "a", b"leaf2");
                            for _ in 0..20 {
                                mem.notify_file("x", "a");
                            }
                            if let Some(s) = live.senders.last() {
                                for _ in 0..20 {
                                    let _ = s.send(assets_manager::source::OwnedDirEntry::File("x".into(), "a".into()));
                                }
                            }
                        }
                        if when == DropWhen::AfterHotReload {
                            cache.hot_reload();
                        }
                        live.caches.push(Box::new(cache));
                    }};
                }
                if src == Src::Custom {
                    drive!(AssetCache::with_source(Custom(mem.clone())));
                } else {
                    drive!(AssetCache::with_source(mem.clone()));
                }
                live.mems.push(mem);
            }
        }
    }
    // threads need a moment to set their name
    std::thread::sleep(Duration::from_millis(20));
    live.tids = reloader_tids().difference(&before).cloned().collect();
    live
}



/// `enhance_hot_reloading` mode: after a change was applied (also one that concerns an asset
/// obtained with `load_owned`, or one whose new content does not load) the reloader goes
/// back to sleep.
fn static_idle(rep: &mut Report, window: Duration, spin_ticks: u64) {
    for variant in 0..3 {
        rep.eval();
        let before = reloader_tids();
        let mem = Mem::new("c15st", Hot::Yes);
        mem.write("x", "a", b"x0");
        mem.write("n", "n0", if variant == 0 { &b"owned L10t x"[..] } else { &b"load L10t x"[..] });
        let cache: &'static AssetCache<Mem> = Box::leak(Box::new(AssetCache::with_source(mem.clone())));
        cache.enhance_hot_reloading();
        let _ = cache.load::<Node<0>>("n");
        std::thread::sleep(Duration::from_millis(20));
        let mine: BTreeSet<i32> = reloader_tids().difference(&before).cloned().collect();
        match variant {
            // a file read through load_owned
            0 => mem.write("x", "a", b"x1"),
            // content that does not load any more
            1 => mem.write("x", "a", b"!bad"),
            // the file goes away
            _ => mem.remove_file("x", "a"),
        };
        mem.notify_file("x", "a");
        let sent = mem.sent();
        if !crate::util::wait_until(60_000, || cache.verif_events_handled().is_some_and(|h| h >= sent)) {
            rep.inconclusive("static_idle: barrier watchdog");
            return;
        }
        std::thread::sleep(Duration::from_millis(100));
        mem.set_logging(true);
        let _ = mem.take_log();
        let t0 = ticks_of(&mine);
        std::thread::sleep(window);
        let used = ticks_of(&mine).saturating_sub(t0);
        let reads = mem.take_log().len();
        mem.set_logging(false);
        let change = ["edit of a file read through load_owned", "edit to content that does not load", "deletion of the file"][variant];
        let scen = json!({"kind": "enhance_hot_reloading, one notified change, then idle", "change": change});
        if used >= spin_ticks.max(5) || reads > 50 {
            rep.violation(
                "busy-while-idle",
                "C15/reloader-busy-while-idle",
                json!({"ticks_in_window": used, "window_ms": window.as_millis() as u64, "source_reads_in_window": reads, "threads": mine.len()}),
                scen,
            );
        }
        rep.count("idle_windows_observed", 1);
        rep.nontrivial(mix(0x57a7, variant as u64));
    }
}

/// A custom source with a watcher thread of its own: it publishes a change every
/// 2 ms, stops when the reloader no longer listens (`send` fails), and is joined
/// when the source held by the cache is dropped.
struct LiveSource {
    mem: Mem,
    watcher: std::sync::Arc<std::sync::Mutex<Option<std::thread::JoinHandle<u64>>>>,
    primary: bool,
}

impl Source for LiveSource {
    fn read(&self, id: &str, ext: &str) -> std::io::Result<FileContent<'_>> {
        self.mem.read(id, ext)
    }
    fn read_dir(&self, id: &str, f: &mut dyn FnMut(DirEntry)) -> std::io::Result<()> {
        self.mem.read_dir(id, f)
    }
    fn exists(&self, e: DirEntry) -> bool {
        self.mem.exists(e)
    }
    fn make_source(&self) -> Option<Box<dyn Source + Send>> {
        Some(Box::new(LiveSource { mem: self.mem.clone(), watcher: self.watcher.clone(), primary: false }))
    }
    fn configure_hot_reloading(&self, events: assets_manager::hot_reloading::EventSender) -> Result<(), assets_manager::BoxedError> {
        let h = std::thread::Builder::new().name("vh_live_watch".into()).spawn(move || {
            let mut sent = 0u64;
            while events.send(assets_manager::source::OwnedDirEntry::File("x".into(), "a".into())).is_ok() {
                sent += 1;
                std::thread::sleep(Duration::from_millis(2));
            }
            sent
        })?;
        *self.watcher.lock().unwrap() = Some(h);
        Ok(())
    }
}

impl Drop for LiveSource {
    fn drop(&mut self) {
        if self.primary {
            if let Some(h) = self.watcher.lock().unwrap().take() {
                let _ = h.join();
            }
        }
    }
}

/// Dropping a cache whose source joins its own watcher: the drop must finish, which needs the
/// reloader to stop listening before (or independently of) the source going away.
fn live_source_drop(rep: &mut Report, rounds: usize) {
    for round in 0..rounds {
        rep.eval();
        let before = reloader_tids();
        let mem = Mem::new("c15live", Hot::No);
        mem.write("x", "a", b"leaf");
        let src = LiveSource { mem: mem.clone(), watcher: Default::default(), primary: true };
        let cache = AssetCache::with_source(src);
        let _ = cache.load::<Leaf<1, 0, true>>("x");
        if round % 2 == 1 {
            cache.hot_reload();
        }
        std::thread::sleep(Duration::from_millis(20));
        let mine: BTreeSet<i32> = reloader_tids().difference(&before).cloned().collect();
        let done = std::sync::Arc::new(std::sync::atomic::AtomicBool::new(false));
        let d2 = done.clone();
        let dropper_tid = std::sync::Arc::new(std::sync::atomic::AtomicI32::new(0));
        let t2 = dropper_tid.clone();
        let dropper = std::thread::Builder::new()
            .name("vh_dropper".into())
            .spawn(move || {
                t2.store(procfs::gettid(), std::sync::atomic::Ordering::SeqCst);
                drop(cache);
                d2.store(true, std::sync::atomic::Ordering::SeqCst);
            })
            .unwrap();
        let scen = json!({"source": "custom source with a watcher thread joined in its Drop", "round": round, "hot_reload_before_drop": round % 2 == 1});
        // logical verdict: violation only on a quiescent cycle (everybody asleep, nobody progressing)
        let mut quiet_windows = 0;
        let mut snapshot = vec![];
        let t0 = std::time::Instant::now();
        while !done.load(std::sync::atomic::Ordering::SeqCst) && t0.elapsed() < Duration::from_secs(120) {
            let watch: Vec<procfs::Task> = procfs::tasks().into_iter().filter(|t| t.comm == "vh_live_watch" || t.comm == "vh_dropper" || mine.contains(&t.tid)).collect();
            let sw0: Vec<u64> = watch.iter().map(|t| procfs::voluntary_switches(t.tid).unwrap_or(0) + t.ticks).collect();
            std::thread::sleep(Duration::from_millis(500));
            if done.load(std::sync::atomic::Ordering::SeqCst) {
                break;
            }
            let dr = procfs::task(dropper_tid.load(std::sync::atomic::Ordering::SeqCst));
            let reloader_alive = mine.iter().filter_map(|t| procfs::task(*t)).filter(|t| t.comm.starts_with("assets_hot_relo")).count();
            let dropper_asleep = dr.as_ref().is_some_and(|t| t.state == 'S') && {
                let now: Vec<u64> = watch.iter().filter(|t| t.comm == "vh_dropper").map(|t| procfs::voluntary_switches(t.tid).unwrap_or(0) + procfs::task(t.tid).map_or(0, |x| x.ticks)).collect();
                let was: Vec<u64> = watch.iter().zip(&sw0).filter(|(t, _)| t.comm == "vh_dropper").map(|(_, s)| *s).collect();
                now == was
            };
            if dropper_asleep && reloader_alive > 0 {
                quiet_windows += 1;
                snapshot = watch.iter().map(|t| json!({"thread": t.comm, "state": procfs::task(t.tid).map(|x| x.state.to_string())})).collect();
            } else {
                quiet_windows = 0;
            }
            if quiet_windows >= 6 {
                break;
            }
        }
        if done.load(std::sync::atomic::Ordering::SeqCst) {
            let _ = dropper.join();
            rep.count("live_source_drops_finished", 1);
            rep.nontrivial(mix(0x11fe, round as u64));
        } else if quiet_windows >= 6 {
            rep.violation(
                "drop-never-finishes",
                "C15/cache-drop-blocked:reloader-outlives-source",
                json!({"what": "drop(cache) sleeps in the source's Drop (joining its watcher) while the reloader thread of that cache is still alive and listening; six consecutive 500 ms windows without progress",
                       "threads": snapshot}),
                scen,
            );
            // the threads are stuck for good: leave them behind
            return;
        } else {
            rep.inconclusive("live-source drop: watchdog (120 s) without a quiescent cycle");
            return;
        }
    }
}

/// No native watcher available: hot-reloading is simply off, nothing may start running in the
/// background instead. The condition is produced without touching anything shared: the scenario
/// runs in a child process that first moves into a user namespace of its own and sets that
/// namespace's `max_inotify_instances` to 0, so that `inotify_init` fails there and only there.
fn without_native_watcher(rep: &mut Report, args: &Args) {
    use std::process::{Command, Stdio};
    rep.eval();
    let exe = std::env::current_exe().expect("current_exe");
    let out = crate::util::scratch_dir("c15child").join("child.json");
    let st = Command::new(exe)
        .args(["C15", "--tier", &args.tier, "--seed", &args.seed.to_string(), "--build", &args.build, "--mode", "child:nowatcher", "--out"])
        .arg(&out)
        .stdout(Stdio::null())
        .stderr(Stdio::null())
        .status();
    match st {
        Err(e) => rep.inconclusive(&format!("could not spawn the child process: {e}")),
        Ok(_) => match std::fs::read_to_string(&out).ok().and_then(|t| serde_json::from_str::<serde_json::Value>(&t).ok()) {
            None => rep.inconclusive("no-native-watcher child left no result"),
            Some(v) => {
                for n in v["notes"].as_array().into_iter().flatten() {
                    if let Some(n) = n.as_str() {
                        rep.note(n);
                    }
                }
                for viol in v["violations"].as_array().into_iter().flatten() {
                    rep.violation(
                        viol["clause"].as_str().unwrap_or("child"),
                        viol["signature"].as_str().unwrap_or("C15/child"),
                        viol["detail"].clone(),
                        viol["scenario"].clone(),
                    );
                }
                let n = v["counters"]["without_native_watcher_observed"].as_u64().unwrap_or(0);
                rep.count("without_native_watcher_observed", n);
                if n > 0 {
                    rep.nontrivial(mix(0x0fd, n));
                }
            }
        },
    }
    let _ = std::fs::remove_dir_all(out.parent().unwrap());
}

/// Runs in the child process (single-threaded when called).
fn child_without_native_watcher(mut rep: Report) -> Report {
    let (uid, gid) = unsafe { (libc::getuid(), libc::getgid()) };
    if unsafe { libc::unshare(libc::CLONE_NEWUSER) } != 0 {
        rep.note("without-native-watcher: user namespaces are not available here; scenario skipped");
        return rep;
    }
    let _ = std::fs::write("/proc/self/setgroups", "deny");
    let _ = std::fs::write("/proc/self/uid_map", format!("0 {uid} 1"));
    let _ = std::fs::write("/proc/self/gid_map", format!("0 {gid} 1"));
    let _ = std::fs::write("/proc/sys/user/max_inotify_instances", "0");
    let probe = unsafe { libc::inotify_init1(libc::IN_CLOEXEC) };
    if probe >= 0 {
        unsafe { libc::close(probe) };
        rep.note("without-native-watcher: could not make inotify_init fail; scenario skipped");
        return rep;
    }
    let interesting = |t: &procfs::Task| t.comm.starts_with("notify-rs") || t.comm.starts_with("assets_hot_relo");
    let before: BTreeSet<i32> = procfs::tasks().iter().filter(|t| interesting(t)).map(|t| t.tid).collect();
    let dir = crate::util::scratch_dir("c15nowatch");
    std::fs::write(dir.join("x.a"), b"v0").unwrap();
    let mut caches = vec![];
    for _ in 0..3 {
        if let Ok(c) = AssetCache::new(&dir) {
            caches.push(c);
        }
    }
    let mut loaded = 0;
    for c in &caches {
        if c.load::<Leaf<1, 0, true>>("x").is_ok() {
            loaded += 1;
        }
    }
    let scen = json!({"kind": "filesystem caches created while inotify_init fails (private user namespace with max_inotify_instances = 0)",
        "caches": caches.len(), "loads_ok": loaded});
    std::thread::sleep(Duration::from_millis(100));
    let alive = |before: &BTreeSet<i32>| -> Vec<procfs::Task> { procfs::tasks().into_iter().filter(|t| interesting(t) && !before.contains(&t.tid)).collect() };
    let while_idle = alive(&before);
    let wake0: u64 = while_idle.iter().filter_map(|t| procfs::voluntary_switches(t.tid)).sum();
    std::thread::sleep(Duration::from_millis(1500));
    let wake1: u64 = while_idle.iter().filter_map(|t| procfs::voluntary_switches(t.tid)).sum();
    if !while_idle.is_empty() && wake1 >= wake0 + 3 {
        rep.violation(
            "wakes-while-idle",
            "C15/background-threads-wake-while-idle:no-native-watcher",
            json!({"threads": while_idle.iter().map(|t| t.comm.clone()).collect::<Vec<_>>(), "wakeups_in_1500_ms_while_nothing_changed": wake1 - wake0}),
            scen.clone(),
        );
    }
    drop(caches);
    std::thread::sleep(Duration::from_millis(300));
    let left = alive(&before);
    if !left.is_empty() {
        let w0: u64 = left.iter().filter_map(|t| procfs::voluntary_switches(t.tid)).sum();
        std::thread::sleep(Duration::from_millis(1500));
        let still = alive(&before);
        let w1: u64 = still.iter().filter_map(|t| procfs::voluntary_switches(t.tid)).sum();
        if !still.is_empty() && w1 >= w0 + 3 {
            rep.violation(
                "threads-left-after-drop",
                "C15/background-threads-keep-running-after-drop:no-native-watcher",
                json!({"threads": still.iter().map(|t| t.comm.clone()).collect::<Vec<_>>(), "wakeups_in_1500_ms_after_the_drop": w1 - w0}),
                scen.clone(),
            );
        }
    }
    rep.count("without_native_watcher_observed", 1);
    let _ = std::fs::remove_dir_all(dir);
    rep
}

pub fn run(args: &Args) -> Report {
    let mut rep = Report::new(args);
    rep.rule = "create / use / drop sequences of 1..K caches over in-memory (sender kept by the source, kept by the \
                harness, dropped), custom and real filesystem sources; dropped while idle, right after hot_reload, \
                with events still queued, right after loads. Observed through /proc/self/task: thread names, state \
                letter and utime+stime ticks of the threads named assets_hot_reload that appeared with the caches. \
                A sequence is non-trivial when at least one reloader thread was attributed to it; distinct = \
                distinct (source, count, drop moment)"
        .into();
    let mut rng = Rng::new(args.seed).sub(15 + args.shard as u64 * 1000);
    if cfg!(miri) {
        return run_miri(rep);
    }
    if args.mode.as_deref() == Some("child:nowatcher") {
        return child_without_native_watcher(rep);
    }
    let window = Duration::from_millis(if args.thorough() { 1000 } else { 400 });
    let hz = procfs::ticks_per_second();
    let spin_ticks = (hz as f64 * window.as_secs_f64() * 0.2) as u64; // 20 % of one CPU
    let srcs = [Src::MemKeepsSender, Src::SenderKeptByHarness, Src::SenderDropped, Src::Custom, Src::FileSystem];
    let whens = [DropWhen::Idle, DropWhen::AfterHotReload, DropWhen::EventsQueued, DropWhen::AfterLoads];
    let mut cases: Vec<(Src, DropWhen, usize)> = vec![];
    for s in srcs {
        for w in whens {
            let n = if args.thorough() { *rng.pick(&[1usize, 2, 8, 32]) } else { *rng.pick(&[1usize, 2, 6]) };
            cases.push((s, w, n));
        }
    }
    let mut attributed = 0u64;
    let threads_at_start = procfs::tasks().len();
    let baseline_reloaders = reloader_tids();
    for (i, (src, when, n)) in cases.iter().enumerate() {
        if i % args.nshards != args.shard {
            continue;
        }
        rep.eval();
        let scen = json!({"source": format!("{src:?}"), "drop_when": format!("{when:?}"), "caches": n});
        let live = create(*src, *n, *when);
        let expect_threads = *n;
        if live.tids.len() > expect_threads {
            rep.note(&format!("more reloader threads ({}) than caches ({n}) appeared", live.tids.len()));
        }
        if !live.tids.is_empty() {
            attributed += 1;
            rep.nontrivial(mix(i as u64, *n as u64));
        }
        rep.seen("sources", &format!("{src:?}"));
        rep.seen("drop_moments", &format!("{when:?}"));
        // ---- idle: no CPU while nothing changes (with events queued: once they have been taken in;
        // nobody calls hot_reload, the changes just stay recorded)
        if *when == DropWhen::EventsQueued {
            std::thread::sleep(Duration::from_millis(150));
        }
        {
            std::thread::sleep(Duration::from_millis(50));
            let t0 = ticks_of(&live.tids);
            std::thread::sleep(window);
            let t1 = ticks_of(&live.tids);
            let used = t1.saturating_sub(t0);
            rep.count("idle_windows_observed", 1);
            if used >= spin_ticks.max(5) {
                rep.violation(
                    "busy-while-idle",
                    "C15/reloader-busy-while-idle",
                    json!({"ticks_in_window": used, "window_ms": window.as_millis() as u64, "threads": live.tids.len()}),
                    scen.clone(),
                );
            }
        }
        // ---- drop: the threads go away (or at least sleep for good)
        let Live { tids, mems, caches, senders, dirs } = live;
        drop(caches);
        let gone = crate::util::wait_until(3_000, || tids.iter().all(|t| procfs::task(*t).is_none_or(|x| !x.comm.starts_with("assets_hot_relo"))));
        if gone {
            rep.count("sequences_all_threads_exited", 1);
        } else {
            // still there: spinning is a violation, sleeping is accepted
            let mut spinning_windows = 0;
            let mut states = vec![];
            for _ in 0..3 {
                let t0 = ticks_of(&tids);
                std::thread::sleep(window);
                let used = ticks_of(&tids).saturating_sub(t0);
                if used >= spin_ticks.max(5) {
                    spinning_windows += 1;
                }
                states.push(json!({"ticks": used, "states": tids.iter().filter_map(|t| procfs::task(*t)).map(|t| t.state.to_string()).collect::<Vec<_>>()}));
            }
            if spinning_windows == 3 {
                rep.violation(
                    "spins-after-drop",
                    "C15/reloader-spins-after-drop",
                    json!({"windows": states, "window_ms": window.as_millis() as u64}),
                    scen.clone(),
                );
            } else {
                rep.count("sequences_with_sleeping_leftover_thread", 1);
            }
        }
        drop(senders);
        drop(mems);
        for d in dirs {
            let _ = std::fs::remove_dir_all(d);
        }
        if rep.samples.len() < 3 {
            rep.sample(json!({"case": scen, "reloader_threads_attributed": tids.len(), "all_exited_within_3s": gone}));
        }
    }
    // ---- filesystem caches: the OS watcher of a dropped cache is torn down by
    // the next notification it cannot deliver (it has no other way to notice)
    if args.shard == 0 {
        rep.eval();
        let notify_threads = || procfs::tasks().into_iter().filter(|t| t.comm.starts_with("notify-rs")).count();
        let base = notify_threads();
        let dir = crate::util::scratch_dir("c15w");
        std::fs::write(dir.join("x.a"), b"v0").unwrap();
        std::fs::write(dir.join("p.n0"), b"panic").unwrap();
        let k = 6;
        for i in 0..k {
            let cache = AssetCache::with_source(FileSystem::new(&dir).expect("fs source"));
            let _ = cache.load::<Leaf<1, 0, true>>("x");
            if i % 2 == 1 {
                // a loader that panics, caught by the caller: nothing of the cache may stay behind
                crate::util::quiet_panics(true);
                let _ = std::panic::catch_unwind(std::panic::AssertUnwindSafe(|| cache.load::<Node<0>>("p").is_ok()));
                crate::util::quiet_panics(false);
            }
            std::fs::write(dir.join("x.a"), format!("v{i}")).unwrap();
            cache.hot_reload();
            drop(cache);
        }
        let with_dropped = notify_threads();
        // only modifications of an existing file from now on
        let mut left = with_dropped;
        for round in 0..40 {
            std::fs::write(dir.join("x.a"), format!("after-drop-{round}")).unwrap();
            std::thread::sleep(Duration::from_millis(50));
            left = notify_threads();
            if left <= base {
                break;
            }
        }
        rep.extra.insert("notify_threads_base_afterdrop_afteredits".into(), json!([base, with_dropped, left]));
        if left > base {
            rep.violation(
                "watcher-not-torn-down",
                "C15/os-watcher-threads-accumulate-after-drop",
                json!({"caches_created_and_dropped": k, "notify_threads_before": base, "right_after_the_drops": with_dropped,
                       "after_40_modifications_of_an_existing_file": left}),
                json!({"kind": "filesystem watcher teardown"}),
            );
        } else {
            rep.count("fs_watcher_teardown_observed", 1);
            rep.nontrivial(mix(0xf5, with_dropped as u64));
        }
        let _ = std::fs::remove_dir_all(dir);
    }
    // ---- a source that joins its own watcher when dropped; no native watcher available
    if args.shard == args.nshards - 1 {
        live_source_drop(&mut rep, if args.thorough() { 12 } else { 4 });
        static_idle(&mut rep, window, spin_ticks);
        without_native_watcher(&mut rep, args);
    }
    // ---- repeated create/drop does not accumulate threads or load
    let reps = if args.thorough() { 50 } else { 15 };
    let cpu0: u64 = procfs::tasks().iter().map(|t| t.ticks).sum();
    let t_start = std::time::Instant::now();
    for r in 0..reps {
        rep.eval();
        let live = create(if r % 2 == 0 { Src::MemKeepsSender } else { Src::SenderKeptByHarness }, 4, DropWhen::AfterLoads);
        drop(live);
    }
    std::thread::sleep(Duration::from_millis(300));
    let leftover: BTreeSet<i32> = reloader_tids().difference(&baseline_reloaders).cloned().collect();
    let t0 = ticks_of(&leftover);
    std::thread::sleep(window);
    let used = ticks_of(&leftover).saturating_sub(t0);
    let cpu1: u64 = procfs::tasks().iter().map(|t| t.ticks).sum();
    rep.count("accumulation_cycles", reps as u64);
    rep.count("reloader_threads_left_after_cycles", leftover.len() as u64);
    rep.extra.insert("process_threads_start_end".into(), json!([threads_at_start, procfs::tasks().len()]));
    rep.extra.insert("cpu_ticks_during_cycles".into(), json!(cpu1.saturating_sub(cpu0)));
    rep.extra.insert("cycles_wall_ms".into(), json!(t_start.elapsed().as_millis() as u64));
    if !leftover.is_empty() && used >= spin_ticks.max(5) {
        rep.violation(
            "accumulating-load",
            "C15/reloader-spins-after-drop",
            json!({"threads_left": leftover.len(), "ticks_in_window": used}),
            json!({"cycles": reps, "caches_per_cycle": 4}),
        );
    }
    rep.floor("sequences_with_attributed_threads", attributed, 3);
    rep.floor_set("sources", if args.nshards > 1 { 2 } else { 5 });
    rep
}

/// Under Miri there is no /proc: the logical signal is the reloader's clone of
/// the source being dropped when the thread function returns.
fn run_miri(mut rep: Report) -> Report {
    for round in 0..3 {
        rep.eval();
        let mem = Mem::new("c15m", if round == 1 { Hot::SenderToHarness } else { Hot::Yes });
        mem.write("x", "a", b"leaf");
        let cache = AssetCache::with_source(mem.clone());
        let keep = if round == 1 { mem.take_sender() } else { None };
        let _ = cache.load::<Leaf<1, 0, true>>("x");
        if round == 2 {
            cache.hot_reload();
        }
        let with_cache = mem.strong_count();
        drop(cache);
        let ok = crate::util::wait_until(600_000, || mem.strong_count() == 1);
        if ok {
            rep.count("reloader_source_clone_released", 1);
            rep.nontrivial(mix(0x15, round));
        } else {
            rep.inconclusive("the reloader's clone of the source was not released (thread still alive?) within the watchdog");
        }
        rep.sample(json!({"round": round, "handles_while_cache_alive": with_cache, "after_drop": mem.strong_count()}));
        drop(keep);
    }
    rep.floor("reloader_source_clone_released", rep.get("reloader_source_clone_released"), 2);
    rep
}
