//! C02 — the cache is a faithful (id, type) map for every front-end.
//!
//! Also hosts the lock-step runner reused by C13 (drop ledger) since the
//! histories are the same.

use crate::assets::*;
use crate::ledger;
use crate::mem::{Hot, Mem, Tree};
use crate::model::{Key, Model};
use crate::rng::{fnv_str, mix, Rng};
use crate::scen::{expect_outcome, same_error, Fe, HandleObs, Outcome, RealCache};
use crate::{Args, Report};
use assets_manager::{AssetCache, LocalAssetCache};
use serde_json::{json, Value};
use std::collections::{BTreeMap, BTreeSet};

#[derive(Clone, Debug, PartialEq, Eq, Hash)]
pub enum Api {
    Load(Ty, String),
    LoadExpect(Ty, String),
    LoadOwned(Ty, String),
    GetCached(Ty, String),
    GetOrInsert(Ty, String, u64),
    Contains(Ty, String),
    Remove(Ty, String),
    Take(Ty, String),
    Clear,
    Write(String, String, Vec<u8>),
    Delete(String, String),
}

impl Api {
    pub fn kind(&self) -> &'static str {
        match self {
            Api::Load(..) => "load",
            Api::LoadExpect(..) => "load_expect",
            Api::LoadOwned(..) => "load_owned",
            Api::GetCached(..) => "get_cached",
            Api::GetOrInsert(..) => "get_or_insert",
            Api::Contains(..) => "contains",
            Api::Remove(..) => "remove",
            Api::Take(..) => "take",
            Api::Clear => "clear",
            Api::Write(..) => "edit_write",
            Api::Delete(..) => "edit_delete",
        }
    }

    pub fn render(&self) -> String {
        match self {
            Api::Load(t, i) => format!("load {} {i:?}", t.tag()),
            Api::LoadExpect(t, i) => format!("load_expect {} {i:?}", t.tag()),
            Api::LoadOwned(t, i) => format!("load_owned {} {i:?}", t.tag()),
            Api::GetCached(t, i) => format!("get_cached {} {i:?}", t.tag()),
            Api::GetOrInsert(t, i, n) => format!("get_or_insert {} {i:?} {n}", t.tag()),
            Api::Contains(t, i) => format!("contains {} {i:?}", t.tag()),
            Api::Remove(t, i) => format!("remove {} {i:?}", t.tag()),
            Api::Take(t, i) => format!("take {} {i:?}", t.tag()),
            Api::Clear => "clear".into(),
            Api::Write(i, x, c) => format!("write {i:?}.{x} {:?}", String::from_utf8_lossy(c)),
            Api::Delete(i, x) => format!("delete {i:?}.{x}"),
        }
    }
}

#[derive(Clone, Copy, Debug, PartialEq, Eq)]
pub enum Front {
    SharedHotDirect,
    SharedHotAny,
    SharedColdDirect,
    LocalDirect,
    LocalAny,
}

pub const FRONTS: [Front; 5] = [
    Front::SharedHotDirect,
    Front::SharedHotAny,
    Front::SharedColdDirect,
    Front::LocalDirect,
    Front::LocalAny,
];

impl Front {
    pub fn name(self) -> &'static str {
        match self {
            Front::SharedHotDirect => "AssetCache(hot)",
            Front::SharedHotAny => "AssetCache(hot).as_any_cache()",
            Front::SharedColdDirect => "AssetCache(without_hot_reloading)",
            Front::LocalDirect => "LocalAssetCache",
            Front::LocalAny => "LocalAssetCache.as_any_cache()",
        }
    }
    pub fn hot(self) -> bool {
        matches!(self, Front::SharedHotDirect | Front::SharedHotAny)
    }
    pub fn fe(self) -> Fe {
        match self {
            Front::SharedHotAny | Front::LocalAny => Fe::Any,
            _ => Fe::Direct,
        }
    }
    pub fn build(self, mem: Mem) -> RealCache {
        match self {
            Front::SharedHotDirect | Front::SharedHotAny => RealCache::Shared(AssetCache::with_source(mem)),
            Front::SharedColdDirect => RealCache::Shared(AssetCache::without_hot_reloading(mem)),
            Front::LocalDirect | Front::LocalAny => RealCache::Local(LocalAssetCache::with_source(mem)),
        }
    }
}

pub fn tree_from(files: &[(&str, &str, &str)]) -> Tree {
    let mem = Mem::new("t", Hot::No);
    for (id, ext, content) in files {
        mem.write(id, ext, content.as_bytes());
    }
    mem.snapshot()
}

fn outcome_json<T: std::fmt::Debug>(o: &Outcome<T>) -> Value {
    json!(format!("{o:?}"))
}

/// Runs one history in lock-step on one front-end; reports every divergence.
/// Returns the number of steps executed.
pub fn run_history(
    rep: &mut Report,
    prop: &str,
    front: Front,
    tree: &Tree,
    ops: &[Api],
    alphabet: &[Key],
    check_every_step: bool,
) -> usize {
    let scen = || {
        json!({"front": front.name(), "ops": ops.iter().map(|o| o.render()).collect::<Vec<_>>(),
               "files": tree.files.iter().map(|((i, x), c)| format!("{i}.{x}={}", String::from_utf8_lossy(c))).collect::<Vec<_>>()})
    };
    let mark = ledger::mark();
    let dd0 = ledger::double_drops();
    let zst0 = CTX.zst_live.load(std::sync::atomic::Ordering::SeqCst);
    let mem = Mem::new("c02", if front.hot() { Hot::Yes } else { Hot::No });
    mem.set_tree(tree.clone());
    mem.set_logging(false);
    CTX.log_on.store(false, std::sync::atomic::Ordering::SeqCst);
    // the shard count is 4 * next_power_of_two(available CPUs) at construction:
    // vary it, including CPU counts that are not powers of two
    let ncpu = [16usize, 1, 3, 2, 5, 6, 12, 4, 7][(crate::rng::fnv_str(&format!("{ops:?}")) % 9) as usize];
    let mut real = crate::util::with_cpus(ncpu, || front.build(mem.clone()));
    if real.is_hot() != front.hot() {
        rep.violation(
            "is-hot-reloaded",
            &format!("{prop}/is-hot-reloaded"),
            json!({"front": front.name(), "reported": real.is_hot()}),
            scen(),
        );
    }
    let mut model = Model::new(vec![(front.hot(), tree.clone())]);
    let fe = front.fe();
    // key -> (handle address, token) as first observed since the last removal
    let mut seen: BTreeMap<Key, (usize, Option<usize>)> = BTreeMap::new();
    let mut steps = 0;
    let mut diverged = false;

    macro_rules! bad {
        ($clause:expr, $i:expr, $detail:expr) => {{
            rep.violation(
                $clause,
                &format!("{}/{}", prop, $clause),
                json!({"step": $i, "op": ops[$i].render(), "detail": $detail}),
                scen(),
            );
            diverged = true;
        }};
    }

    let mut note_handle = |seen: &mut BTreeMap<Key, (usize, Option<usize>)>, k: Key, h: &HandleObs| -> Option<String> {
        if h.id != k.1 {
            return Some(format!("handle id {:?} != requested {:?}", h.id, k.1));
        }
        if let Some(t) = h.token {
            if !ledger::is_live(t) {
                return Some(format!("handle reaches dropped token {t}"));
            }
        }
        match seen.get(&k) {
            Some((addr, tok)) => {
                if *addr != h.addr || *tok != h.token {
                    return Some(format!(
                        "handle changed between removals: addr {:#x}->{:#x}, token {:?}->{:?}",
                        addr, h.addr, tok, h.token
                    ));
                }
            }
            None => {
                seen.insert(k, (h.addr, h.token));
            }
        }
        None
    };

    for (i, op) in ops.iter().enumerate() {
        if diverged {
            break;
        }
        steps += 1;
        match op {
            Api::Load(ty, id) | Api::LoadExpect(ty, id) => {
                let expect_variant = matches!(op, Api::LoadExpect(..));
                let got = if expect_variant {
                    real.load_expect(fe, *ty, id)
                } else {
                    real.load(fe, *ty, id)
                };
                let exp = expect_outcome(model.load(0, *ty, id, &mut None));
                match (&got, &exp) {
                    (Outcome::Ok(h), Outcome::Ok(v)) => {
                        if h.v != *v {
                            bad!("load-value", i, json!({"got": format!("{:?}", h.v), "expected": format!("{v:?}")}));
                        } else if let Some(why) = note_handle(&mut seen, (*ty, id.clone()), h) {
                            bad!("handle-identity", i, json!(why));
                        }
                    }
                    (Outcome::Err(e), Outcome::Err(x)) if !expect_variant => {
                        if !same_error(e, x) {
                            bad!("load-error", i, json!({"got": format!("{e:?}"), "expected": format!("{x:?}")}));
                        }
                    }
                    (Outcome::Panic(_), Outcome::Err(_)) if expect_variant => {}
                    (Outcome::Panic(_), Outcome::Panic(_)) => {}
                    _ => bad!("load-outcome", i, json!({"got": outcome_json(&got), "expected": outcome_json(&exp)})),
                }
            }
            Api::LoadOwned(ty, id) => {
                let got = real.load_owned(fe, *ty, id);
                let exp = expect_outcome(model.load_owned(0, *ty, id, &mut None));
                match (&got, &exp) {
                    (Outcome::Ok((v, tok)), Outcome::Ok(x)) => {
                        if v != x {
                            bad!("load-owned-value", i, json!({"got": format!("{v:?}"), "expected": format!("{x:?}")}));
                        }
                        // the owned value was dropped by the harness right after describing it
                        if let Some(t) = tok {
                            if !ledger::is_dropped(*t) {
                                bad!("load-owned-not-owned", i, json!({"token": t}));
                            }
                            if seen.values().any(|(_, st)| *st == Some(*t)) {
                                bad!("load-owned-aliases-cache", i, json!({"token": t}));
                            }
                        }
                    }
                    (Outcome::Err(e), Outcome::Err(x)) => {
                        if !same_error(e, x) {
                            bad!("load-owned-error", i, json!({"got": format!("{e:?}"), "expected": format!("{x:?}")}));
                        }
                    }
                    (Outcome::Panic(_), Outcome::Panic(_)) => {}
                    _ => bad!("load-owned-outcome", i, json!({"got": outcome_json(&got), "expected": outcome_json(&exp)})),
                }
            }
            Api::GetCached(ty, id) => {
                let got = real.get_cached(fe, *ty, id);
                let exp = model.get_cached(0, *ty, id, &mut None);
                match (&got, &exp) {
                    (Outcome::Ok(Some(h)), Some(v)) => {
                        if h.v != *v {
                            bad!("get-cached-value", i, json!({"got": format!("{:?}", h.v), "expected": format!("{v:?}")}));
                        } else if let Some(why) = note_handle(&mut seen, (*ty, id.clone()), h) {
                            bad!("handle-identity", i, json!(why));
                        }
                    }
                    (Outcome::Ok(None), None) => {}
                    _ => bad!("get-cached-presence", i, json!({"got": outcome_json(&got), "expected": format!("{exp:?}")})),
                }
            }
            Api::GetOrInsert(ty, id, n) => {
                let got = real.get_or_insert(fe, *ty, id, *n);
                let (v, inserted) = model.get_or_insert(0, *ty, id, *n);
                match &got {
                    Outcome::Ok((h, offered)) => {
                        if h.v != v {
                            bad!("get-or-insert-value", i, json!({"got": format!("{:?}", h.v), "expected": format!("{v:?}"), "model_inserted": inserted}));
                        } else {
                            if inserted {
                                if h.token != *offered {
                                    bad!("get-or-insert-not-stored", i, json!({"handle_token": h.token, "offered": offered}));
                                }
                            } else if let Some(t) = offered {
                                if h.token == Some(*t) {
                                    bad!("get-or-insert-overwrote", i, json!({"token": t}));
                                } else if !ledger::is_dropped(*t) {
                                    bad!("get-or-insert-loser-not-dropped", i, json!({"token": t}));
                                }
                            }
                            if let Some(why) = note_handle(&mut seen, (*ty, id.clone()), h) {
                                bad!("handle-identity", i, json!(why));
                            }
                        }
                    }
                    other => bad!("get-or-insert-outcome", i, outcome_json(other)),
                }
            }
            Api::Contains(ty, id) => {
                let got = real.contains(fe, *ty, id);
                let exp = model.contains(0, *ty, id);
                if got != Outcome::Ok(exp) {
                    bad!("contains", i, json!({"got": outcome_json(&got), "expected": exp}));
                }
            }
            Api::Remove(ty, id) => {
                let tok = seen.remove(&(*ty, id.clone()));
                let got = real.remove(*ty, id);
                let exp = model.remove(0, *ty, id);
                if got != Outcome::Ok(exp) {
                    bad!("remove-result", i, json!({"got": outcome_json(&got), "expected": exp}));
                }
                if let Some((_, Some(t))) = tok {
                    if !ledger::is_dropped(t) {
                        bad!("remove-not-dropped", i, json!({"token": t}));
                    }
                }
            }
            Api::Take(ty, id) => {
                let prev = seen.remove(&(*ty, id.clone()));
                let got = real.take(*ty, id);
                let exp = model.take(0, *ty, id);
                match (&got, &exp) {
                    (Outcome::Ok(Some((v, tok))), Some(x)) => {
                        if v != x {
                            bad!("take-value", i, json!({"got": format!("{v:?}"), "expected": format!("{x:?}")}));
                        }
                        if let Some((_, st)) = prev {
                            if st != *tok {
                                bad!("take-not-the-stored-value", i, json!({"taken_token": tok, "stored_token": st}));
                            }
                        }
                    }
                    (Outcome::Ok(None), None) => {}
                    _ => bad!("take-presence", i, json!({"got": outcome_json(&got), "expected": format!("{exp:?}")})),
                }
            }
            Api::Clear => {
                real.clear();
                model.clear(0);
                for (_, (_, tok)) in std::mem::take(&mut seen) {
                    if let Some(t) = tok {
                        if !ledger::is_dropped(t) {
                            bad!("clear-not-dropped", i, json!({"token": t}));
                        }
                    }
                }
            }
            Api::Write(id, ext, content) => {
                mem.write(id, ext, content);
                model.write(0, id, ext, content);
            }
            Api::Delete(id, ext) => {
                mem.remove_file(id, ext);
                model.remove_file(0, id, ext);
            }
        }
        if diverged {
            break;
        }
        if check_every_step || i + 1 == ops.len() {
            // presence of every key of the alphabet and of every key the model holds
            let mut keys: BTreeSet<Key> = alphabet.iter().cloned().collect();
            keys.extend(model.caches[0].entries.keys().cloned());
            for (ty, id) in &keys {
                let got = real.contains(fe, *ty, id);
                let exp = model.contains(0, *ty, id);
                if got != Outcome::Ok(exp) {
                    bad!("presence-after-step", i, json!({"key": format!("{} {id:?}", ty.tag()), "got": outcome_json(&got), "expected": exp}));
                    break;
                }
            }
            // value + ledger: exactly the model's entries are alive
            let mut expected_live: BTreeSet<usize> = BTreeSet::new();
            let mut zst = 0i64;
            for ((ty, id), e) in model.caches[0].entries.clone() {
                if ty == Ty::Stored(2) {
                    zst += 1;
                }
                match real.get_cached(Fe::Direct, ty, &id) {
                    Outcome::Ok(Some(h)) => {
                        if h.v != e.value {
                            bad!("value-after-step", i, json!({"key": format!("{} {id:?}", ty.tag()), "got": format!("{:?}", h.v), "expected": format!("{:?}", e.value)}));
                        }
                        if let Some(why) = note_handle(&mut seen, (ty, id.clone()), &h) {
                            bad!("handle-identity", i, json!(why));
                        }
                        if let Some(t) = h.token {
                            expected_live.insert(t);
                        }
                    }
                    other => bad!("presence-after-step", i, json!({"key": format!("{} {id:?}", ty.tag()), "got": outcome_json(&other)})),
                }
            }
            let live: BTreeSet<usize> = ledger::live_since(mark).into_iter().collect();
            if live != expected_live && !diverged {
                let leaked: Vec<_> = live.difference(&expected_live).take(5).collect();
                let missing: Vec<_> = expected_live.difference(&live).take(5).collect();
                bad!("ledger-after-step", i, json!({"live_but_unreachable": leaked, "reachable_but_dropped": missing}));
            }
            let z = CTX.zst_live.load(std::sync::atomic::Ordering::SeqCst) - zst0;
            if z != zst && !diverged {
                bad!("zst-ledger", i, json!({"live": z, "expected": zst}));
            }
        }
    }
    drop(real);
    if !diverged {
        let live = ledger::live_since(mark);
        let z = CTX.zst_live.load(std::sync::atomic::Ordering::SeqCst) - zst0;
        if !live.is_empty() || z != 0 || ledger::double_drops() != dd0 {
            rep.violation(
                "ledger-after-drop",
                &format!("{prop}/ledger-after-drop"),
                json!({"still_live": live.len(), "zst_live": z, "double_drops": ledger::double_drops() - dd0}),
                scen(),
            );
        }
    }
    CTX.log_on.store(true, std::sync::atomic::Ordering::SeqCst);
    steps
}

/// Source configurations of the bounded-exhaustive part.
pub fn small_trees() -> Vec<Tree> {
    vec![
        tree_from(&[
            ("a", "a", "A0"),
            ("a", "n0", "load L10t a"),
            ("b", "n0", "load L10t b"),
        ]),
        tree_from(&[
            ("a", "a", "A1"),
            ("b", "a", "!broken"),
            ("a", "n0", "load L10t a fail"),
            ("b", "n0", "try L10t b cached L10t a"),
        ]),
        tree_from(&[
            ("a", "a", "A2"),
            ("b", "a", "B2"),
            ("a", "n0", "load N0 b"),
            ("b", "n0", "file b a owned L10t a"),
        ]),
    ]
}

pub fn small_alphabet() -> (Vec<Key>, Vec<Api>) {
    let mut keys = vec![];
    let mut ops = vec![];
    for id in ["a", "b"] {
        for ty in [LEAF_A, Ty::Node(0)] {
            keys.push((ty, id.to_string()));
            let i = id.to_string();
            ops.push(Api::Load(ty, i.clone()));
            ops.push(Api::LoadOwned(ty, i.clone()));
            ops.push(Api::GetCached(ty, i.clone()));
            ops.push(Api::GetOrInsert(ty, i.clone(), 7));
            ops.push(Api::Contains(ty, i.clone()));
            ops.push(Api::Remove(ty, i.clone()));
            ops.push(Api::Take(ty, i.clone()));
        }
        let ty = Ty::Stored(0);
        keys.push((ty, id.to_string()));
        let i = id.to_string();
        ops.push(Api::GetCached(ty, i.clone()));
        ops.push(Api::GetOrInsert(ty, i.clone(), 9));
        ops.push(Api::Contains(ty, i.clone()));
        ops.push(Api::Remove(ty, i.clone()));
        ops.push(Api::Take(ty, i.clone()));
    }
    ops.push(Api::Clear);
    ops.push(Api::Load(Ty::Dir(Elem::LeafA), String::new()));
    ops.push(Api::Load(Ty::RecDir(Elem::LeafA), String::new()));
    keys.push((Ty::Dir(Elem::LeafA), String::new()));
    keys.push((Ty::RecDir(Elem::LeafA), String::new()));
    (keys, ops)
}

pub const BIG_TYPES: [Ty; 8] = [
    LEAF_A,
    LEAF_M,
    LEAF_D,
    LEAF_S,
    Ty::Node(0),
    Ty::Node(1),
    Ty::ArcNode,
    Ty::Stored(0),
];

pub fn big_ids() -> Vec<String> {
    ["a", "b", "c", "d.x", "d.y", "e", "d.z.w", "f", "p/q", ".lead"].iter().map(|s| s.to_string()).collect()
}

/// Random recipe over the big id/type alphabet (no threads / other caches here).
pub fn random_recipe(r: &mut Rng, ids: &[String], depth: usize) -> Vec<Op> {
    let n = r.range(0, 3);
    let mut ops = vec![];
    for _ in 0..n {
        let id = r.pick(ids).clone();
        let leafs = [LEAF_A, LEAF_M, LEAF_D, LEAF_S];
        let comp = [Ty::Node(0), Ty::Node(1), Ty::ArcNode];
        let ty = if depth > 0 && r.chance(1, 3) { *r.pick(&comp) } else { *r.pick(&leafs) };
        ops.push(match r.below(10) {
            0 => Op::File { id, ext: "a".into() },
            1 => Op::ReadDir { id: parent_or_root(&id) },
            2 | 3 => Op::Load { ty, id },
            4 | 5 => Op::Try { ty, id },
            6 => Op::Cached { ty, id },
            7 => Op::Owned { ty, id },
            8 => Op::Contains { ty, id },
            _ => {
                if r.chance(1, 2) {
                    Op::NoRec(vec![Op::Try { ty, id }])
                } else {
                    Op::Load { ty: Ty::Dir(Elem::LeafA), id: parent_or_root(&id) }
                }
            }
        });
    }
    if r.chance(1, 12) {
        ops.push(Op::Fail);
    }
    ops
}

fn parent_or_root(id: &str) -> String {
    crate::mem::parent_of(id).unwrap_or("").to_string()
}

pub fn random_tree(r: &mut Rng, ids: &[String]) -> Tree {
    random_tree_ex(r, ids, false)
}

/// `inserts`: compounds may also call `get_or_insert`, on other keys and on their own key
/// (the entry then exists already when the load that created it comes to store its result).
pub fn random_tree_ex(r: &mut Rng, ids: &[String], inserts: bool) -> Tree {
    let mem = Mem::new("gen", Hot::No);
    for (n, id) in ids.iter().enumerate() {
        // leaves
        match r.below(5) {
            0 => {}
            1 => {
                mem.write(id, "a", format!("!bad-{id}").as_bytes());
            }
            _ => {
                mem.write(id, "a", format!("leaf-{id}-0").as_bytes());
            }
        }
        if r.chance(1, 2) {
            let ext = *r.pick(&["m1", "", "m3"]);
            mem.write(id, ext, format!("m-{id}-{ext}").as_bytes());
        }
        // recipes: node n may only name ids with a larger index => no cycles
        let later: Vec<String> = ids[n + 1..].to_vec();
        for ext in ["n0", "n1"] {
            if r.chance(3, 4) {
                let mut ops = if later.is_empty() {
                    random_recipe(r, std::slice::from_ref(id), 0)
                } else {
                    random_recipe(r, &later, 1)
                };
                // a compound may load the *leaf* of its own id
                if r.chance(1, 2) {
                    ops.insert(0, Op::Load { ty: LEAF_A, id: id.clone() });
                }
                if inserts && r.chance(1, 4) {
                    let own = if ext == "n0" { Ty::Node(0) } else { Ty::Node(1) };
                    let op = match r.below(4) {
                        0 | 1 => Op::Insert { ty: own, id: id.clone(), n: r.below(1000) as u64 },
                        2 => Op::Insert { ty: LEAF_A, id: r.pick(ids).clone(), n: r.below(1000) as u64 },
                        _ => Op::Insert { ty: Ty::Stored(0), id: r.pick(ids).clone(), n: r.below(1000) as u64 },
                    };
                    let at = r.below(ops.len() + 1);
                    ops.insert(at, op);
                }
                // nodes never load nodes of the same or an earlier index => acyclic
                mem.write(id, ext, render_recipe(&ops).as_bytes());
            }
        }
    }
    mem.snapshot()
}

pub fn random_api(r: &mut Rng, ids: &[String]) -> Api {
    let id = r.pick(ids).clone();
    let ty = *r.pick(&BIG_TYPES);
    let storable_only = !ty.is_compound();
    match r.below(24) {
        0..=5 if !storable_only => Api::Load(ty, id),
        6 if !storable_only => Api::LoadExpect(ty, id),
        7 | 8 if !storable_only => Api::LoadOwned(ty, id),
        9 | 10 => Api::GetCached(ty, id),
        11 | 12 => match ty {
            Ty::ArcNode | Ty::Leaf { e: 3, d: 0, h: true } => Api::GetCached(ty, id),
            _ => Api::GetOrInsert(ty, id, r.below(1000) as u64),
        },
        13 => Api::Contains(ty, id),
        14 | 15 => Api::Remove(ty, id),
        16 | 17 => Api::Take(ty, id),
        18 => {
            if r.chance(1, 4) {
                Api::Clear
            } else {
                Api::Contains(ty, id)
            }
        }
        19 => Api::Load(Ty::Dir(*r.pick(&[Elem::LeafA, Elem::LeafM, Elem::Node0])), parent_or_root(&id)),
        20 => Api::Load(Ty::RecDir(*r.pick(&[Elem::LeafA, Elem::LeafM])), parent_or_root(&id)),
        21 | 22 => {
            let ext = *r.pick(&["a", "a", "m1", "", "n0"]);
            let content = if ext == "n0" {
                let pos = ids.iter().position(|x| *x == id).unwrap_or(0);
                let later: Vec<String> = ids[pos + 1..].to_vec();
                if later.is_empty() {
                    "".to_string()
                } else {
                    render_recipe(&random_recipe(r, &later, 1))
                }
            } else if r.chance(1, 5) {
                "!broken".to_string()
            } else {
                format!("edit-{}", r.below(100))
            };
            Api::Write(id, ext.to_string(), content.into_bytes())
        }
        23 => Api::Delete(id, r.pick(&["a", "m1", "n0"]).to_string()),
        _ => Api::GetCached(ty, id),
    }
}

pub fn run(args: &Args) -> Report {
    let mut rep = Report::new(args);
    rep.rule = "bounded-exhaustive: every sequence up to length L over a 41-operation alphabet (2 ids x {leaf, \
                compound, storable-only} x {load, load_owned, get_cached, get_or_insert, contains, remove, take} + \
                clear + directory loads) on 3 source configurations, front-ends rotated; random: sequences of \
                length 40 over 8 ids x 8 types with source edits in between; every step is compared with the \
                reference map model (results, presence of every key, values, handle identity, token ledger). \
                A sequence is non-trivial when it contains at least one mutating operation; distinct = distinct \
                (front-end, configuration, sequence) hashes"
        .into();
    let miri = cfg!(miri);
    let mut rng = Rng::new(args.seed).sub(2 + args.shard as u64 * 1000);
    crate::util::quiet_panics(true);

    // ---- bounded-exhaustive
    let (keys, alpha) = small_alphabet();
    let trees = small_trees();
    let maxlen = if miri { 1 } else if args.thorough() { 4 } else { 3 };
    let mut index = 0u64;
    let mut exhaustive_runs = 0u64;
    let mut pairs: BTreeSet<(&'static str, &'static str)> = BTreeSet::new();
    for len in 1..=maxlen {
        let total = alpha.len().pow(len as u32);
        // the longest length is sampled by stride in the quick tier to bound time
        let stride = if len == 4 { 1 } else { 1 };
        let mut code = 0usize;
        while code < total {
            index += 1;
            if index % args.nshards as u64 == args.shard as u64 {
                let seq: Vec<Api> = (0..len).map(|i| alpha[(code / alpha.len().pow(i as u32)) % alpha.len()].clone()).collect();
                let cfg = (index as usize / args.nshards) % trees.len();
                let front = FRONTS[(index as usize / args.nshards / trees.len()) % FRONTS.len()];
                rep.eval();
                run_history(&mut rep, "C02", front, &trees[cfg], &seq, &keys, true);
                exhaustive_runs += 1;
                for w in seq.windows(2) {
                    pairs.insert((w[0].kind(), w[1].kind()));
                }
                for o in &seq {
                    rep.seen("op_kinds", o.kind());
                }
                rep.seen("fronts", front.name());
                let mutating = seq.iter().any(|o| !matches!(o, Api::Contains(..) | Api::GetCached(..)));
                if mutating {
                    rep.nontrivial(mix(fnv_str(front.name()), mix(cfg as u64, mix(len as u64, code as u64))));
                }
                if exhaustive_runs == 1000 {
                    rep.sample(json!({"kind": "exhaustive", "front": front.name(), "config": cfg,
                        "ops": seq.iter().map(|o| o.render()).collect::<Vec<_>>()}));
                }
            }
            code += stride;
        }
    }
    rep.count("exhaustive_sequences", exhaustive_runs);
    rep.extra.insert("exhaustive_max_len".into(), json!(maxlen));
    rep.extra.insert("alphabet_size".into(), json!(alpha.len()));

    // ---- random long histories with edits
    let nrand = if miri { args.n(2, 6) } else { args.n(400, 6_000) };
    let ids = big_ids();
    let alphabet_big: Vec<Key> = vec![];
    for h in 0..nrand {
        rep.eval();
        // every third tree: compounds that call get_or_insert while they are being loaded
        let with_inserts = h % 3 == 2;
        let tree = random_tree_ex(&mut rng, &ids, with_inserts);
        if with_inserts {
            rep.count("histories_with_get_or_insert_inside_loads", 1);
        }
        let len = if miri { 8 } else { 40 };
        let ops: Vec<Api> = (0..len).map(|_| random_api(&mut rng, &ids)).collect();
        let front = FRONTS[h % FRONTS.len()];
        // same history on every front-end (cross-front-end equality by transitivity through the model)
        let fronts: Vec<Front> = if h % 4 == 0 && !miri { FRONTS.to_vec() } else { vec![front] };
        for f in fronts {
            run_history(&mut rep, "C02", f, &tree, &ops, &alphabet_big, h % 8 == 0);
            rep.seen("fronts", f.name());
        }
        for w in ops.windows(2) {
            pairs.insert((w[0].kind(), w[1].kind()));
        }
        for o in &ops {
            rep.seen("op_kinds", o.kind());
        }
        rep.nontrivial(fnv_str(&format!("{ops:?}")));
        if h == 0 {
            rep.sample(json!({"kind": "random", "front": front.name(),
                "ops": ops.iter().map(|o| o.render()).collect::<Vec<_>>(),
                "files": tree.files.iter().map(|((i, x), c)| format!("{i}.{x}={}", String::from_utf8_lossy(c))).collect::<Vec<_>>()}));
        }
    }
    rep.count("random_histories", nrand as u64);
    rep.count("adjacent_op_pairs_seen", pairs.len() as u64);
    crate::util::quiet_panics(false);
    if ledger::overflowed() {
        rep.inconclusive("token ledger capacity exhausted");
    }
    rep.exhaustive = Some(false);
    rep.floor_set("op_kinds", if miri { 6 } else { 11 });
    rep.floor_set("fronts", if miri { 3 } else { 5 });
    rep.floor("adjacent_op_pairs_seen", pairs.len() as u64, if miri { 10 } else { 80 });
    rep
}
