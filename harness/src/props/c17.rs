//! C17 — OnceInitCell initialises once, keeps its seed on failure, drops once.

use crate::assets::{CellVal, Leaf};
use crate::ledger::{self, Token};
use crate::mem::{Hot, Mem};
use crate::rng::{mix, Rng};
use crate::{Args, Report};
use assets_manager::{AssetCache, OnceInitCell};
use serde_json::json;
use std::panic::{catch_unwind, AssertUnwindSafe};
use std::sync::atomic::{AtomicBool, AtomicU64, AtomicUsize, Ordering::SeqCst};

trait Seed: Send + 'static {
    const NAME: &'static str;
    fn new() -> Self;
    /// serial of the owned token, if the seed is tracked
    fn serial(&self) -> Option<usize>;
    fn bumps(&self) -> u64;
    fn bump(&mut self);
}

/// seed with `Drop` (default code path)
struct SeedTok {
    token: Token,
    bumps: u64,
}
impl Seed for SeedTok {
    const NAME: &'static str = "drop";
    fn new() -> Self {
        SeedTok {
            token: Token::new(),
            bumps: 0,
        }
    }
    fn serial(&self) -> Option<usize> {
        Some(self.token.serial())
    }
    fn bumps(&self) -> u64 {
        self.bumps
    }
    fn bump(&mut self) {
        self.bumps += 1
    }
}

/// seed without `Drop` (specialised code path)
#[derive(Clone, Copy)]
struct SeedPlain {
    bumps: u64,
}
impl Seed for SeedPlain {
    const NAME: &'static str = "nodrop";
    fn new() -> Self {
        SeedPlain { bumps: 0 }
    }
    fn serial(&self) -> Option<usize> {
        None
    }
    fn bumps(&self) -> u64 {
        self.bumps
    }
    fn bump(&mut self) {
        self.bumps += 1
    }
}

/// seed whose destructor panics
struct SeedBomb {
    token: Token,
    bumps: u64,
}
impl Drop for SeedBomb {
    fn drop(&mut self) {
        if !std::thread::panicking() {
            panic!("vh: seed destructor bomb");
        }
    }
}
impl Seed for SeedBomb {
    const NAME: &'static str = "bomb";
    fn new() -> Self {
        SeedBomb {
            token: Token::new(),
            bumps: 0,
        }
    }
    fn serial(&self) -> Option<usize> {
        Some(self.token.serial())
    }
    fn bumps(&self) -> u64 {
        self.bumps
    }
    fn bump(&mut self) {
        self.bumps += 1
    }
}

struct Val {
    token: Token,
    by: u64,
}

#[derive(Clone, Copy, Debug, PartialEq, Eq)]
enum Act {
    Fail,
    Panic,
    Succeed,
}

/// What one attempt observed.
#[derive(Debug)]
struct Attempt {
    ran: bool,
    seed_serial: Option<usize>,
    seed_bumps: u64,
    /// Ok(address of &T, `by`) | Err("err") | Err("panic")
    outcome: Result<(usize, u64), &'static str>,
}

fn attempt<U: Seed>(cell: &OnceInitCell<U, Val>, act: Act, who: u64, runs: &AtomicU64) -> Attempt {
    attempt_api(cell, act, who, runs, false)
}

/// `infallible`: go through `get_or_init` (no error channel) whenever the action allows it.
fn attempt_api<U: Seed>(cell: &OnceInitCell<U, Val>, act: Act, who: u64, runs: &AtomicU64, infallible: bool) -> Attempt {
    let mut ran = false;
    let mut seed_serial = None;
    let mut seed_bumps = 0;
    let r = catch_unwind(AssertUnwindSafe(|| {
        if infallible && act != Act::Fail {
            let v = cell.get_or_init(|seed: &mut U| {
                ran = true;
                runs.fetch_add(1, SeqCst);
                seed_serial = seed.serial();
                seed_bumps = seed.bumps();
                seed.bump();
                match act {
                    Act::Panic => panic!("vh: init panic"),
                    _ => Val { token: Token::new(), by: who },
                }
            });
            return Ok::<_, &'static str>((v as *const Val as usize, v.by, v.token.is_live()));
        }
        cell.get_or_try_init(|seed: &mut U| {
            ran = true;
            runs.fetch_add(1, SeqCst);
            seed_serial = seed.serial();
            seed_bumps = seed.bumps();
            seed.bump();
            match act {
                Act::Fail => Err("vh: init failed"),
                Act::Panic => panic!("vh: init panic"),
                Act::Succeed => Ok(Val {
                    token: Token::new(),
                    by: who,
                }),
            }
        })
        .map(|v| (v as *const Val as usize, v.by, v.token.is_live()))
    }));
    let outcome = match r {
        Ok(Ok((addr, by, live))) => {
            if live {
                Ok((addr, by))
            } else {
                Err("dead-value")
            }
        }
        Ok(Err(_)) => Err("err"),
        Err(_) => Err("panic"),
    };
    Attempt {
        ran,
        seed_serial,
        seed_bumps,
        outcome,
    }
}

/// All sequences of {fail, panic, succeed} up to `maxlen` on one cell, single thread.
fn sequences<U: Seed>(rep: &mut Report, maxlen: usize) {
    let acts = [Act::Fail, Act::Panic, Act::Succeed];
    for len in 1..=maxlen {
        for code in 0..3usize.pow(len as u32) {
            rep.eval();
            let seq: Vec<Act> = (0..len).map(|i| acts[(code / 3usize.pow(i as u32)) % 3]).collect();
            for infallible in [false, true] {
            if infallible && !seq.iter().any(|a| *a == Act::Panic) {
                continue;
            }
            let scen = json!({"seed": U::NAME, "sequence": format!("{seq:?}"),
                "api": if infallible { "get_or_init for panicking / succeeding initialisers, get_or_try_init for failing ones" } else { "get_or_try_init" }});
            let mark = ledger::mark();
            let dd0 = ledger::double_drops();
            let runs = AtomicU64::new(0);
            let cell: OnceInitCell<U, Val> = OnceInitCell::new(U::new());
            let mut first_seed = None;
            let mut expected_bumps = 0u64;
            let mut done: Option<(usize, u64)> = None;
            let mut bomb_pending = false;
            for (i, act) in seq.iter().enumerate() {
                let a = attempt_api(&cell, *act, i as u64, &runs, infallible);
                match done {
                    Some((addr, by)) => {
                        // already initialised: must not run, must return the same reference
                        if a.ran || a.outcome != Ok((addr, by)) {
                            rep.violation(
                                "reinit",
                                "C17/initialised-twice",
                                json!({"step": i, "attempt": format!("{a:?}")}),
                                scen.clone(),
                            );
                        }
                    }
                    None => {
                        if !a.ran {
                            rep.violation("init-not-run", "C17/init-not-run", json!({"step": i}), scen.clone());
                        }
                        // the same seed, carrying the mutations of earlier attempts
                        if first_seed.is_none() {
                            first_seed = Some(a.seed_serial);
                        }
                        if Some(a.seed_serial) != first_seed || a.seed_bumps != expected_bumps {
                            rep.violation(
                                "seed-lost",
                                "C17/seed-lost",
                                json!({"step": i, "seed_serial": a.seed_serial, "first": first_seed,
                                       "bumps": a.seed_bumps, "expected_bumps": expected_bumps}),
                                scen.clone(),
                            );
                        }
                        expected_bumps += 1;
                        match act {
                            Act::Succeed => {
                                if U::NAME == "bomb" {
                                    // the seed's destructor panics after the cell is initialised
                                    bomb_pending = true;
                                    if a.outcome != Err("panic") {
                                        rep.note("bomb seed: get_or_try_init returned without propagating the destructor panic");
                                    }
                                    match cell.get() {
                                        Some(v) => done = Some((v as *const Val as usize, v.by)),
                                        None => rep.violation(
                                            "bomb-uninit",
                                            "C17/uninitialised-after-success",
                                            json!({"step": i}),
                                            scen.clone(),
                                        ),
                                    }
                                } else {
                                    match a.outcome {
                                        Ok(x) => done = Some(x),
                                        Err(e) => rep.violation(
                                            "success-not-returned",
                                            "C17/success-not-returned",
                                            json!({"step": i, "outcome": e}),
                                            scen.clone(),
                                        ),
                                    }
                                }
                            }
                            Act::Fail | Act::Panic => {
                                let want = if *act == Act::Fail { "err" } else { "panic" };
                                if a.outcome != Err(want) {
                                    rep.violation(
                                        "failure-not-reported",
                                        "C17/failure-not-reported",
                                        json!({"step": i, "attempt": format!("{a:?}")}),
                                        scen.clone(),
                                    );
                                }
                                if cell.get().is_some() {
                                    rep.violation(
                                        "initialised-by-failure",
                                        "C17/initialised-by-failure",
                                        json!({"step": i, "act": format!("{act:?}")}),
                                        scen.clone(),
                                    );
                                }
                            }
                        }
                    }
                }
                // exactly one of seed / value is live (tracked seeds only)
                if let Some(Some(ss)) = first_seed {
                    let live = ledger::live_since(mark);
                    let seed_live = live.contains(&ss);
                    let others: Vec<_> = live.iter().filter(|s| **s != ss).collect();
                    let ok = match done {
                        Some(_) => !seed_live && others.len() == 1,
                        None => seed_live && others.is_empty(),
                    };
                    if !ok {
                        rep.violation(
                            "one-of-seed-value",
                            "C17/seed-value-exclusivity",
                            json!({"step": i, "seed_live": seed_live, "other_live_tokens": others.len(), "initialised": done.is_some()}),
                            scen.clone(),
                        );
                    }
                }
            }
            let get_ok = match (cell.get(), done) {
                (Some(v), Some((addr, _))) => v as *const Val as usize == addr,
                (None, None) => true,
                _ => false,
            };
            if !get_ok {
                rep.violation("get-mismatch", "C17/get-mismatch", json!({}), scen.clone());
            }
            // dropping the cell drops whatever it owns, exactly once
            let r = catch_unwind(AssertUnwindSafe(|| drop(cell)));
            if r.is_err() && !(U::NAME == "bomb" && done.is_none()) {
                rep.violation("drop-panicked", "C17/drop-panicked", json!({}), scen.clone());
            }
            let _ = bomb_pending;
            let live = ledger::live_since(mark);
            if !live.is_empty() || ledger::double_drops() != dd0 {
                rep.violation(
                    "ledger",
                    "C17/ledger-imbalance",
                    json!({"still_live": live.len(), "double_drops": ledger::double_drops() - dd0}),
                    scen.clone(),
                );
            }
            rep.nontrivial(mix(crate::rng::fnv_str(U::NAME), mix(len as u64 + 100 * infallible as u64, code as u64)));
            rep.seen("seed_kinds", U::NAME);
            rep.seen("init_apis", if infallible { "get_or_init" } else { "get_or_try_init" });
            if code == 5 && len == 3 && !infallible {
                rep.sample(scen);
            }
            }
        }
    }
}

/// K threads racing on one cell.
fn race<U: Seed>(rep: &mut Report, rng: &mut Rng, rounds: usize, kmax: usize) -> u64 {
    let mut contended = 0u64;
    for round in 0..rounds {
        rep.eval();
        let k = rng.range(2, kmax);
        let acts: Vec<Act> = (0..k)
            .map(|_| match rng.below(5) {
                0 => Act::Fail,
                1 => Act::Panic,
                _ => Act::Succeed,
            })
            .collect();
        let spin: Vec<u64> = (0..k).map(|_| rng.below(200) as u64).collect();
        let scen = json!({"seed": U::NAME, "threads": k, "acts": format!("{acts:?}")});
        let mark = ledger::mark();
        let dd0 = ledger::double_drops();
        let runs = AtomicU64::new(0);
        let cell: OnceInitCell<U, Val> = OnceInitCell::new(U::new());
        let go = AtomicBool::new(false);
        let ready = AtomicUsize::new(0);
        let mut results: Vec<Attempt> = vec![];
        std::thread::scope(|s| {
            let hs: Vec<_> = (0..k)
                .map(|t| {
                    let (cell, go, ready, runs) = (&cell, &go, &ready, &runs);
                    let act = acts[t];
                    let sp = spin[t];
                    s.spawn(move || {
                        ready.fetch_add(1, SeqCst);
                        while !go.load(SeqCst) {
                            crate::util::pause();
                            #[cfg(miri)]
                            std::thread::yield_now();
                        }
                        crate::util::spin(sp);
                        let a = attempt(cell, act, t as u64, runs);
                        // `get` afterwards must agree
                        let g = cell.get().map(|v| v as *const Val as usize);
                        (a, g)
                    })
                })
                .collect();
            while ready.load(SeqCst) < k {
                std::thread::yield_now();
            }
            go.store(true, SeqCst);
            for h in hs {
                let (a, g) = h.join().unwrap();
                if let Ok((addr, _)) = a.outcome {
                    if g != Some(addr) {
                        rep.violation("get-after-init", "C17/get-mismatch", json!({}), scen.clone());
                    }
                }
                results.push(a);
            }
        });
        let ran = results.iter().filter(|a| a.ran).count();
        let oks: Vec<(usize, u64)> = results.iter().filter_map(|a| a.outcome.ok()).collect();
        let succeeded_runs = results
            .iter()
            .zip(&acts)
            .filter(|(a, act)| a.ran && **act == Act::Succeed)
            .count();
        if ran >= 2 || (ran == 1 && oks.len() >= 2) {
            contended += 1;
        }
        if succeeded_runs > 1 {
            rep.violation(
                "two-successful-initialisers",
                "C17/initialised-twice",
                json!({"successful_initialiser_runs": succeeded_runs}),
                scen.clone(),
            );
        }
        let mut addrs: Vec<usize> = oks.iter().map(|x| x.0).collect();
        addrs.sort();
        addrs.dedup();
        if addrs.len() > 1 {
            rep.violation(
                "different-references",
                "C17/different-references",
                json!({"distinct_addresses": addrs.len()}),
                scen.clone(),
            );
        }
        let any_ok_bomb = U::NAME == "bomb" && succeeded_runs == 1;
        match cell.get() {
            Some(v) => {
                if succeeded_runs != 1 || (!addrs.is_empty() && addrs[0] != v as *const Val as usize) {
                    rep.violation("init-without-success", "C17/init-without-success", json!({}), scen.clone());
                }
                // everyone that did not run its own failing initialiser must have got the value
                for (a, act) in results.iter().zip(&acts) {
                    let failed_own = a.ran && *act != Act::Succeed;
                    if !failed_own && a.outcome.is_err() && !any_ok_bomb {
                        rep.violation(
                            "racer-missed-winner",
                            "C17/racer-missed-winner",
                            json!({"attempt": format!("{a:?}")}),
                            scen.clone(),
                        );
                    }
                }
            }
            None => {
                if succeeded_runs != 0 {
                    rep.violation("success-lost", "C17/uninitialised-after-success", json!({}), scen.clone());
                }
            }
        }
        // seeds seen by the initialisers: one single seed, bumps 0,1,2,... in run order
        let mut bumps: Vec<u64> = results.iter().filter(|a| a.ran).map(|a| a.seed_bumps).collect();
        bumps.sort();
        if bumps != (0..ran as u64).collect::<Vec<_>>() {
            rep.violation(
                "seed-lost",
                "C17/seed-lost",
                json!({"bumps_seen": bumps, "initialiser_runs": ran}),
                scen.clone(),
            );
        }
        let r = catch_unwind(AssertUnwindSafe(|| drop(cell)));
        let _ = r;
        let live = ledger::live_since(mark);
        if !live.is_empty() || ledger::double_drops() != dd0 {
            rep.violation(
                "ledger",
                "C17/ledger-imbalance",
                json!({"still_live": live.len(), "double_drops": ledger::double_drops() - dd0}),
                scen.clone(),
            );
        }
        rep.nontrivial(mix(
            crate::rng::fnv_str(&format!("{}{acts:?}", U::NAME)),
            mix(ran as u64, oks.len() as u64),
        ));
        if round == 0 {
            rep.sample(json!({"kind": "race", "scenario": scen, "initialiser_runs": ran, "ok_results": oks.len()}));
        }
    }
    contended
}

/// A seed with `Drop` next to a value *without* drop glue: the seed is still
/// dropped exactly once (at initialisation, or with the cell), in sequences
/// and under races.
fn value_without_drop_glue(rep: &mut Report, rng: &mut Rng, rounds: usize) {
    for round in 0..rounds {
        rep.eval();
        let mark = ledger::mark();
        let dd0 = ledger::double_drops();
        let cell: OnceInitCell<SeedTok, u64> = OnceInitCell::new(SeedTok::new());
        let k = if cfg!(miri) { 2 } else { rng.range(1, 6) };
        let fail_first = rng.chance(1, 2);
        let scen = json!({"seed": "drop", "value": "u64 (no drop glue)", "threads": k, "failing_attempt_first": fail_first, "round": round});
        if fail_first {
            let r: Result<&u64, &str> = cell.get_or_try_init(|_| Err("vh: init failed"));
            if r.is_ok() || cell.get().is_some() || ledger::live_since(mark).len() != 1 {
                rep.violation("seed-lost", "C17/seed-lost", json!({"live_after_failed_attempt": ledger::live_since(mark).len()}), scen.clone());
            }
        }
        let mut vals = vec![];
        std::thread::scope(|s| {
            let hs: Vec<_> = (0..k).map(|t| { let cell = &cell; s.spawn(move || *cell.get_or_init(|_| 1000 + t as u64)) }).collect();
            for h in hs {
                vals.push(h.join().unwrap());
            }
        });
        vals.dedup();
        if vals.len() != 1 || cell.get() != Some(&vals[0]) {
            rep.violation("different-references", "C17/different-references", json!({"values": vals}), scen.clone());
        }
        // the seed was consumed by the successful initialisation
        let live = ledger::live_since(mark);
        if !live.is_empty() {
            rep.violation(
                "seed-not-dropped",
                "C17/seed-value-exclusivity",
                json!({"what": "the cell is initialised but its seed is still alive", "live_tokens": live.len()}),
                scen.clone(),
            );
        }
        drop(cell);
        if !ledger::live_since(mark).is_empty() || ledger::double_drops() != dd0 {
            rep.violation(
                "ledger",
                "C17/ledger-imbalance",
                json!({"still_live": ledger::live_since(mark).len(), "double_drops": ledger::double_drops() - dd0}),
                scen.clone(),
            );
        }
        rep.nontrivial(mix(0x0d17, mix(k as u64, fail_first as u64)));
    }
    rep.seen("seed_kinds", "drop+plain-value");
}

/// `get` must not block while another thread is inside the initialiser.
fn get_never_blocks<U: Seed>(rep: &mut Report) {
    rep.eval();
    let cell: OnceInitCell<U, Val> = OnceInitCell::new(U::new());
    let inside = AtomicBool::new(false);
    let release = AtomicBool::new(false);
    let got = AtomicUsize::new(0); // 0 = not returned, 1 = None, 2 = Some
    #[cfg_attr(miri, allow(unused_variables))]
    let getter_tid = AtomicUsize::new(0);
    std::thread::scope(|s| {
        s.spawn(|| {
            let _ = catch_unwind(AssertUnwindSafe(|| {
                cell.get_or_init(|_| {
                    inside.store(true, SeqCst);
                    while !release.load(SeqCst) {
                        std::thread::yield_now();
                    }
                    Val {
                        token: Token::new(),
                        by: 0,
                    }
                });
            }));
        });
        while !inside.load(SeqCst) {
            std::thread::yield_now();
        }
        s.spawn(|| {
            #[cfg(not(miri))]
            getter_tid.store(crate::procfs::gettid() as usize, SeqCst);
            let r = cell.get();
            got.store(if r.is_some() { 2 } else { 1 }, SeqCst);
        });
        let returned = crate::util::wait_until(if cfg!(miri) { 600_000 } else { 10_000 }, || got.load(SeqCst) != 0);
        if !returned {
            // positive evidence of blocking: the getter sleeps while the initialiser is provably parked
            #[cfg(not(miri))]
            let state = crate::procfs::task(getter_tid.load(SeqCst) as i32).map(|t| t.state);
            #[cfg(miri)]
            let state: Option<char> = None;
            if state == Some('S') {
                rep.violation(
                    "get-blocked",
                    "C17/get-blocked",
                    json!({"getter_state": "S", "initialiser": "parked inside"}),
                    json!({"seed": U::NAME}),
                );
            } else {
                rep.inconclusive("get() did not return within the watchdog but the getter is not asleep");
            }
        } else if got.load(SeqCst) == 2 {
            rep.violation(
                "get-some-during-init",
                "C17/get-some-during-init",
                json!({}),
                json!({"seed": U::NAME}),
            );
        } else {
            rep.count("get_during_init_returned_none", 1);
        }
        release.store(true, SeqCst);
    });
    if U::NAME != "bomb" && cell.get().is_none() {
        rep.violation("success-lost", "C17/uninitialised-after-success", json!({}), json!({"seed": U::NAME, "case": "get_never_blocks"}));
    }
    let _ = catch_unwind(AssertUnwindSafe(|| drop(cell)));
}

/// The cell reached through the cache: reloaded => new seed, old pair dropped.
fn through_cache(rep: &mut Report, reloads: usize) {
    type Cell = OnceInitCell<Leaf<1, 0, true>, CellVal>;
    let mark = ledger::mark();
    let dd0 = ledger::double_drops();
    {
        let mem = Mem::new("c17", Hot::Yes);
        mem.write("c", "a", b"seed-0");
        let cache = AssetCache::with_source(mem.clone());
        let h = cache.load::<Cell>("c").expect("load cell");
        for i in 0..reloads {
            rep.eval();
            let scen = json!({"case": "cell-through-cache", "reload": i});
            let (vserial, seed_hash) = {
                let g = h.read();
                if g.get().is_some() {
                    rep.violation("cell-fresh-init", "C17/reloaded-cell-initialised", json!({}), scen.clone());
                }
                let mut seen = 0u64;
                let v = g.get_or_init(|leaf| {
                    seen = match &leaf.v {
                        crate::assets::V::Leaf { hash, .. } => *hash,
                        _ => 0,
                    };
                    CellVal {
                        token: Token::new(),
                        n: i as u64,
                    }
                });
                (v.token.serial(), seen)
            };
            let want = crate::assets::content_hash(format!("seed-{i}").as_bytes());
            if seed_hash != want {
                rep.violation(
                    "cell-seed-stale",
                    "C17/reloaded-cell-seed",
                    json!({"seed_hash": seed_hash, "want": want}),
                    scen.clone(),
                );
            }
            let live = ledger::live_since(mark);
            if live != vec![vserial] {
                rep.violation(
                    "cell-ledger",
                    "C17/ledger-imbalance",
                    json!({"live": live, "expected_only": vserial}),
                    scen.clone(),
                );
            }
            mem.write("c", "a", format!("seed-{}", i + 1).as_bytes());
            mem.notify_file("c", "a");
            let sent = mem.sent();
            if !crate::util::wait_until(120_000, || cache.verif_events_handled() == Some(sent)) {
                rep.inconclusive("through_cache: event barrier watchdog");
                return;
            }
            cache.hot_reload();
            if ledger::is_live(vserial) {
                rep.violation(
                    "cell-old-value-kept",
                    "C17/old-value-not-dropped",
                    json!({"serial": vserial}),
                    scen.clone(),
                );
            }
            rep.nontrivial(mix(0xce11, i as u64));
        }
    }
    let live = ledger::live_since(mark);
    if !live.is_empty() || ledger::double_drops() != dd0 {
        rep.violation(
            "cell-ledger-final",
            "C17/ledger-imbalance",
            json!({"still_live": live.len(), "double_drops": ledger::double_drops() - dd0}),
            json!({"case": "cell-through-cache"}),
        );
    }
}

pub fn run(args: &Args) -> Report {
    let mut rep = Report::new(args);
    rep.rule = "single-thread: every sequence of {fail, panic, succeed} initialisers up to a length bound, for \
                seeds with Drop, without Drop and with a panicking destructor; races: K threads starting together \
                on one cell with random initialiser behaviours; a race is non-trivial when at least two \
                initialisers ran or two callers obtained the value; distinct = distinct (seed kind, behaviours, \
                outcome shape); the token ledger checks that exactly one of seed/value is live and nothing is \
                dropped twice or leaked"
        .into();
    let miri = cfg!(miri);
    let mut rng = Rng::new(args.seed).sub(17 + args.shard as u64 * 1000);
    crate::util::quiet_panics(true);

    let maxlen = if miri { 3 } else { 4 };
    sequences::<SeedTok>(&mut rep, maxlen);
    sequences::<SeedPlain>(&mut rep, maxlen);
    sequences::<SeedBomb>(&mut rep, maxlen.min(3));
    rep.count("sequences_checked", rep.evaluations);

    let rounds = if miri { args.n(6, 20) } else { args.n(1_500, 12_000) };
    let kmax = if miri { 3 } else { 8 };
    let mut contended = 0;
    contended += race::<SeedTok>(&mut rep, &mut rng, rounds, kmax);
    contended += race::<SeedPlain>(&mut rep, &mut rng, rounds, kmax);
    contended += race::<SeedBomb>(&mut rep, &mut rng, rounds / 4 + 1, kmax);
    rep.count("race_rounds", (2 * rounds + rounds / 4 + 1) as u64);
    rep.count("race_rounds_contended", contended);

    value_without_drop_glue(&mut rep, &mut rng, if miri { 3 } else { args.n(400, 10_000) });
    get_never_blocks::<SeedTok>(&mut rep);
    get_never_blocks::<SeedPlain>(&mut rep);

    through_cache(&mut rep, if miri { 2 } else { args.n(10, 100) });

    crate::util::quiet_panics(false);
    if ledger::overflowed() {
        rep.inconclusive("token ledger capacity exhausted");
    }
    rep.exhaustive = Some(false);
    rep.floor_set("seed_kinds", 3);
    rep.floor("race_rounds_contended", contended, if miri { 1 } else { (rounds / 10) as u64 });
    rep.floor("get_during_init_returned_none", rep.get("get_during_init_returned_none"), 2);
    rep
}
