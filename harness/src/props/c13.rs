//! C13 — every stored value is dropped exactly once; type erasure never lies.

use crate::alloc_ledger as al;
use crate::assets::*;
use crate::ledger::{self, Token};
use crate::mem::{Hot, Mem};
use crate::props::c02::{self, Api, Front, FRONTS};
use crate::props::c05::{history, HistCfg};
use crate::reload::Judge;
use crate::rng::{fnv_str, mix, Rng};
use crate::{Args, Report};
use assets_manager::{AssetCache, LocalAssetCache};
use serde_json::json;
use std::sync::atomic::{AtomicBool, AtomicUsize, Ordering::SeqCst};

const PAYLOADS: [Ty; 5] = [Ty::Stored(0), Ty::Stored(1), Ty::Stored(2), Ty::Stored(3), Ty::Big];

fn payload_api(r: &mut Rng, ids: &[String]) -> Api {
    let id = r.pick(ids).clone();
    let ty = if r.chance(2, 3) {
        *r.pick(&PAYLOADS)
    } else {
        *r.pick(&[LEAF_A, LEAF_S, Ty::Node(0), Ty::ArcNode])
    };
    match r.below(14) {
        0..=3 => Api::GetOrInsert(if ty == Ty::ArcNode { Ty::Stored(0) } else { ty }, id, r.below(200) as u64),
        4 | 5 if ty.is_compound() => Api::Load(ty, id),
        6 if ty.is_compound() => Api::LoadOwned(ty, id),
        7 => Api::GetCached(ty, id),
        8 | 9 => Api::Remove(ty, id),
        10 | 11 => Api::Take(ty, id),
        12 => {
            if r.chance(1, 3) {
                Api::Clear
            } else {
                Api::Contains(ty, id)
            }
        }
        _ => Api::Contains(ty, id),
    }
}

/// N threads `get_or_insert` the same key with distinct tokens.
fn insertion_races(rep: &mut Report, rng: &mut Rng, rounds: usize) -> u64 {
    let mut contended = 0;
    for round in 0..rounds {
        rep.eval();
        let n = if cfg!(miri) { 3 } else { rng.range(2, 12) };
        let hot = round % 2 == 0;
        let mark = ledger::mark();
        let dd0 = ledger::double_drops();
        let mem = Mem::new("c13r", if hot { Hot::Yes } else { Hot::No });
        mem.write("r", "a", b"race-leaf");
        let cache = AssetCache::with_source(mem);
        let go = AtomicBool::new(false);
        let ready = AtomicUsize::new(0);
        let use_load = round % 3 == 2;
        // (offered token, token seen through the handle, handle address, offered token dropped at return)
        let mut results: Vec<(Option<usize>, Option<usize>, usize, bool)> = vec![];
        std::thread::scope(|s| {
            let hs: Vec<_> = (0..n)
                .map(|t| {
                    let (cache, go, ready) = (&cache, &go, &ready);
                    s.spawn(move || {
                        ready.fetch_add(1, SeqCst);
                        while !go.load(SeqCst) {
                            crate::util::pause();
                            #[cfg(miri)]
                            std::thread::yield_now();
                        }
                        if use_load {
                            let h = cache.load::<Leaf<1, 0, true>>("r").expect("load");
                            let tok = h.read().token.serial();
                            (None, Some(tok), h as *const _ as usize, true)
                        } else {
                            let v = PTok::new(t as u64);
                            let offered = v.token.serial();
                            let h = cache.get_or_insert::<PTok>("r", v);
                            let seen = h.get().token.serial();
                            let dropped = seen == offered || ledger::is_dropped(offered);
                            (Some(offered), Some(seen), h as *const _ as usize, dropped)
                        }
                    })
                })
                .collect();
            while ready.load(SeqCst) < n {
                std::thread::yield_now();
            }
            go.store(true, SeqCst);
            for h in hs {
                results.push(h.join().unwrap());
            }
        });
        let scen = json!({"threads": n, "hot": hot, "op": if use_load { "load" } else { "get_or_insert" }});
        let mut seen: Vec<_> = results.iter().map(|r| (r.1, r.2)).collect();
        seen.sort();
        seen.dedup();
        if seen.len() != 1 {
            rep.violation(
                "race-different-winners",
                "C13/race-different-winners",
                json!({"distinct (token, handle) pairs observed": seen.len()}),
                scen.clone(),
            );
        }
        if results.iter().any(|r| !r.3) {
            rep.violation(
                "race-loser-not-dropped",
                "C13/race-loser-not-dropped-at-return",
                json!({"results": format!("{results:?}")}),
                scen.clone(),
            );
        }
        let live = ledger::live_since(mark);
        if live.len() != 1 || Some(live[0]) != seen[0].0 {
            rep.violation(
                "race-ledger",
                "C13/race-ledger",
                json!({"live_tokens": live.len(), "created": ledger::created_since(mark)}),
                scen.clone(),
            );
        }
        if ledger::created_since(mark) > 1 {
            contended += 1;
        }
        drop(cache);
        let live = ledger::live_since(mark);
        if !live.is_empty() || ledger::double_drops() != dd0 {
            rep.violation(
                "race-ledger-after-drop",
                "C13/ledger-after-drop",
                json!({"still_live": live.len(), "double_drops": ledger::double_drops() - dd0}),
                scen.clone(),
            );
        }
        rep.nontrivial(mix(0x13ace, mix(n as u64, ledger::created_since(mark) as u64 * 4 + use_load as u64 * 2 + hot as u64)));
        if round == 0 {
            rep.sample(json!({"kind": "insertion race", "scenario": scen}));
        }
    }
    contended
}

/// A reader holds a guard while a reload is pending: the old value must stay
/// alive until the guard is gone, then be dropped exactly once.
fn guard_vs_reload(rep: &mut Report, rounds: usize) {
    for round in 0..rounds {
        rep.eval();
        let mark = ledger::mark();
        let dd0 = ledger::double_drops();
        let mem = Mem::new("c13g", Hot::Yes);
        mem.write("b", "big", b"1");
        let cache: &'static AssetCache<Mem> = Box::leak(Box::new(AssetCache::with_source(mem.clone())));
        cache.enhance_hot_reloading();
        let h = cache.load::<Big>("b").expect("load big");
        let old_token = h.read().token.serial();
        let holding = AtomicBool::new(false);
        let release = AtomicBool::new(false);
        let mut bad: Option<String> = None;
        std::thread::scope(|s| {
            let reader = s.spawn(|| {
                let g = h.read();
                holding.store(true, SeqCst);
                let mut checks = 0u64;
                let mut err = None;
                while !release.load(SeqCst) {
                    if let Err(e) = g.check() {
                        err = Some(e);
                        break;
                    }
                    if g.token.serial() != old_token {
                        err = Some("value changed under a live guard".into());
                        break;
                    }
                    checks += 1;
                    std::thread::yield_now();
                }
                drop(g);
                (checks, err)
            });
            while !holding.load(SeqCst) {
                std::thread::yield_now();
            }
            mem.write("b", "big", format!("{}", round + 2).as_bytes());
            mem.notify_file("b", "big");
            // give the reloader time to reach the write lock: it must block there
            for _ in 0..if cfg!(miri) { 50 } else { 2000 } {
                std::thread::yield_now();
            }
            if !ledger::is_live(old_token) {
                bad = Some("old value dropped while a read guard was alive".into());
            }
            release.store(true, SeqCst);
            let (checks, err) = reader.join().unwrap();
            if let Some(e) = err {
                bad = Some(e);
            }
            rep.count("guard_checks_during_pending_reload", checks);
        });
        let sent = mem.sent();
        if !crate::util::wait_until(if cfg!(miri) { 600_000 } else { 120_000 }, || {
            cache.verif_events_handled() == Some(sent)
        }) {
            rep.inconclusive("guard_vs_reload: barrier watchdog");
            return;
        }
        let scen = json!({"kind": "guard-vs-reload", "round": round});
        if let Some(b) = bad {
            rep.violation("guard-pins-value", "C13/dropped-under-guard", json!(b), scen.clone());
        }
        let new_token = h.read().token.serial();
        if new_token == old_token || h.read().check() != Ok(round as u64 + 2) {
            rep.violation(
                "reload-after-guard",
                "C13/reload-after-guard",
                json!({"new_token": new_token, "old_token": old_token}),
                scen.clone(),
            );
        }
        if ledger::is_live(old_token) || ledger::double_drops() != dd0 {
            rep.violation(
                "old-value-not-dropped",
                "C13/old-value-not-dropped-once",
                json!({"old_live": ledger::is_live(old_token), "double_drops": ledger::double_drops() - dd0}),
                scen.clone(),
            );
        }
        let live = ledger::live_since(mark);
        if live != vec![new_token] {
            rep.violation("guard-ledger", "C13/ledger-imbalance", json!({"live": live}), scen.clone());
        }
        rep.nontrivial(mix(0x6a4d, round as u64));
    }
}

/// Readers that keep taking short guards while values are replaced: whatever a
/// guard reaches must be alive (not yet dropped) and complete.
fn guards_during_reload_stream(rep: &mut Report, rounds: usize, reloads: u64) {
    for round in 0..rounds {
        rep.eval();
        let mark = ledger::mark();
        let dd0 = ledger::double_drops();
        let mem = Mem::new("c13s", Hot::Yes);
        mem.set_logging(false);
        mem.write("b", "big", b"0");
        let cache: &'static AssetCache<Mem> = Box::leak(Box::new(AssetCache::with_source(mem.clone())));
        cache.enhance_hot_reloading();
        let h = cache.load::<Big>("b").expect("load big");
        let stop = AtomicBool::new(false);
        let bad: std::sync::Mutex<Option<String>> = std::sync::Mutex::new(None);
        let guards = std::sync::atomic::AtomicU64::new(0);
        std::thread::scope(|s| {
            for _ in 0..if cfg!(miri) { 1 } else { 3 } {
                s.spawn(|| {
                    while !stop.load(SeqCst) {
                        let g = h.read();
                        let r = g.check();
                        std::hint::spin_loop();
                        let r2 = g.check();
                        guards.fetch_add(1, SeqCst);
                        if r.is_err() || r2 != r {
                            *bad.lock().unwrap() = Some(format!("under a live guard: first look {r:?}, second look {r2:?}"));
                            break;
                        }
                    }
                });
            }
            for g in 1..=reloads {
                mem.write("b", "big", g.to_string().as_bytes());
                mem.notify_file("b", "big");
                if g % 16 == 0 {
                    let sent = mem.sent();
                    let _ = crate::util::wait_until(120_000, || cache.verif_events_handled().is_some_and(|n| n >= sent));
                }
            }
            let sent = mem.sent();
            let _ = crate::util::wait_until(if cfg!(miri) { 600_000 } else { 120_000 }, || {
                cache.verif_events_handled().is_some_and(|n| n >= sent)
            });
            stop.store(true, SeqCst);
        });
        let scen = json!({"kind": "guards during a reload stream", "round": round, "reloads": reloads});
        if let Some(b) = bad.into_inner().unwrap() {
            rep.violation("guard-reaches-dropped-value", "C13/dropped-under-guard", json!(b), scen.clone());
        }
        let live = ledger::live_since(mark);
        if live.len() != 1 || ledger::double_drops() != dd0 {
            rep.violation(
                "stream-ledger",
                "C13/ledger-imbalance",
                json!({"live_tokens": live.len(), "double_drops": ledger::double_drops() - dd0, "values_created": ledger::created_since(mark)}),
                scen.clone(),
            );
        }
        rep.count("guards_taken_during_reload_streams", guards.into_inner());
        rep.nontrivial(mix(0x57e, round as u64));
    }
}

/// All (stored type, requested type) pairs through every type-erased view.
fn downcasts(rep: &mut Report) {
    use assets_manager::AnyCache;
    let mem = Mem::new("c13d", Hot::Yes);
    mem.write("k", "a", b"leaf");
    mem.write("k", "big", b"5");
    mem.write("k", "n0", b"file k a");
    mem.write("k", "n1", b"file k a");
    let cache = AssetCache::with_source(mem);
    let any: AnyCache = cache.as_any_cache();
    // store one value of each type under the same id
    let types: Vec<Ty> = vec![LEAF_A, LEAF_S, Ty::Big, Ty::Node(0), Ty::Node(1), Ty::ArcNode, Ty::Stored(0), Ty::Stored(1), Ty::Stored(2), Ty::Stored(3)];
    for t in &types {
        if t.is_compound() {
            assert!(op_load(any, *t, "k").is_ok(), "setup load {t:?}");
        }
    }
    cache.get_or_insert::<PTok>("k", PTok::new(1));
    cache.get_or_insert::<PAlign>("k", PAlign::new(2));
    cache.get_or_insert::<PZst>("k", PZst::new(3));
    cache.get_or_insert::<u8>("k", 4);

    fn probe<S: assets_manager::Storable + Describe, R: assets_manager::Storable + Describe>(
        rep: &mut Report,
        cache: &AssetCache<Mem>,
        same: bool,
        names: (&str, &str),
    ) {
        rep.eval();
        let scen = json!({"stored": names.0, "requested": names.1});
        let h = cache.get_cached::<S>("k").expect("stored value present");
        let u = h.as_untyped();
        let is = u.is::<R>();
        let dc = u.downcast_ref::<R>().is_some();
        let guard = u.read().downcast::<R>().is_ok();
        let mut bad = vec![];
        if is != same {
            bad.push(format!("is::<{}>() = {is}", names.1));
        }
        if dc != same {
            bad.push(format!("downcast_ref::<{}>().is_some() = {dc}", names.1));
        }
        if guard != same {
            bad.push(format!("AssetReadGuard::downcast::<{}>().is_ok() = {guard}", names.1));
        }
        if same {
            // the typed view must be the very same value
            let a = u.downcast_ref::<R>().map(|x| x.read().describe());
            if a != Some(h.read().describe()) {
                bad.push("downcast to the stored type gives another value".into());
            }
        }
        if !bad.is_empty() {
            rep.violation("wrong-type-view", "C13/type-erasure-lies", json!(bad), scen);
        }
        rep.nontrivial(fnv_str(&format!("{}->{}", names.0, names.1)));
    }
    macro_rules! pairs {
        ($( $S:ty => $sn:literal ),* ; $all:tt) => { $( pairs!(@row $S, $sn, $all); )* };
        (@row $S:ty, $sn:literal, [ $( $R:ty => $rn:literal ),* ]) => {
            $( probe::<$S, $R>(rep, &cache, $sn == $rn, ($sn, $rn)); )*
        };
    }
    pairs!(
        Leaf<1,0,true> => "LeafA", Leaf<1,0,false> => "LeafS", Big => "Big", Node<0> => "Node0", Node<1> => "Node1",
        std::sync::Arc<Node<0>> => "ArcNode0", PTok => "PTok", PAlign => "PAlign", PZst => "PZst", u8 => "u8" ;
        [ Leaf<1,0,true> => "LeafA", Leaf<1,0,false> => "LeafS", Big => "Big", Node<0> => "Node0", Node<1> => "Node1",
          std::sync::Arc<Node<0>> => "ArcNode0", PTok => "PTok", PAlign => "PAlign", PZst => "PZst", u8 => "u8" ]
    );
    // a key stored as T is invisible to get_cached::<U>
    rep.eval();
    let other = AssetCache::without_hot_reloading(Mem::new("c13e", Hot::No));
    other.get_or_insert::<PTok>("only", PTok::new(9));
    let leaks = [
        other.get_cached::<PAlign>("only").is_some(),
        other.get_cached::<u8>("only").is_some(),
        other.get_cached::<Big>("only").is_some(),
        other.contains::<Node<0>>("only"),
        other.as_any_cache().get_cached::<Leaf<1, 0, true>>("only").is_some(),
    ];
    if leaks.iter().any(|x| *x) {
        rep.violation("cross-type-lookup", "C13/type-erasure-lies", json!({"hits": format!("{leaks:?}")}), json!({"stored": "PTok"}));
    }
    rep.sample(json!({"kind": "downcast matrix", "types": ["LeafA", "LeafS", "Big", "Node0", "Node1", "ArcNode0", "PTok", "PAlign", "PZst", "u8"]}));
}

/// Allocator ledger around create-use-drop of whole (reloader-less) caches.

/// A value stored with `get_or_insert` under a key the dependency graph already knows, read
/// through a guard while a notified edit of "its" file is hot-reloaded: the value is never
/// dropped under the guard (nor afterwards: it is not reloadable at all).
fn inserted_value_under_guard(rep: &mut Report, rounds: usize) {
    type L = Leaf<1, 0, true>;
    for round in 0..rounds {
        rep.eval();
        let mem = Mem::new("c13i", Hot::Yes);
        mem.write("x", "a", b"x0");
        let mut cache = AssetCache::with_source(mem.clone());
        if round % 2 == 0 {
            let _ = cache.load_owned::<L>("x");
        } else {
            let _ = cache.load::<L>("x");
            cache.remove::<L>("x");
        }
        let h = cache.get_or_insert::<L>("x", L::from_n(7));
        let token = h.read().token.serial();
        let guard = h.read();
        mem.write("x", "a", b"x1");
        mem.notify_file("x", "a");
        let sent = mem.sent();
        if !crate::util::wait_until(if cfg!(miri) { 600_000 } else { 120_000 }, || cache.verif_events_handled() == Some(sent)) {
            rep.inconclusive("inserted_value_under_guard: barrier watchdog");
            return;
        }
        let mut bad = None;
        std::thread::scope(|s| {
            let t = s.spawn(|| cache.hot_reload());
            for _ in 0..if cfg!(miri) { 30 } else { 500 } {
                if !ledger::is_live(token) || guard.token.serial() != token {
                    bad = Some("the value passed to get_or_insert was dropped (or replaced) while a read guard on it was alive");
                    break;
                }
                std::thread::yield_now();
            }
            // Safe with the unchanged crate: the entry has no lock, hot_reload does not wait for us.
            let _ = t.join();
            if bad.is_none() && (!ledger::is_live(token) || guard.token.serial() != token) {
                bad = Some("the value passed to get_or_insert was dropped (or replaced) while a read guard on it was alive");
            }
        });
        drop(guard);
        let scen = json!({"kind": "get_or_insert value under a guard during hot_reload", "round": round,
            "key_known_through": if round % 2 == 0 { "load_owned" } else { "load + remove" }});
        if let Some(b) = bad {
            rep.violation("guard-pins-value", "C13/dropped-under-guard", json!(b), scen);
            // the handle may dangle now: do not touch it again
            std::mem::forget(cache);
            continue;
        }
        if h.read().token.serial() != token {
            rep.violation("inserted-value-replaced", "C13/inserted-value-replaced-by-reload", json!({}), scen);
        }
        rep.count("ledger_checks", 1);
        rep.nontrivial(mix(0x13a, round as u64));
    }
}

fn allocator_bracket(rep: &mut Report, rng: &mut Rng, rounds: usize, threads_at_start: usize) {
    rep.extra.insert("alloc_ledger_enabled".into(), json!(al::ENABLED));
    if !al::ENABLED {
        return;
    }
    let ids = c02::big_ids();
    // reloader / helper threads of the earlier sections free their structures when they exit
    if !crate::util::settle_threads(threads_at_start, 20_000) {
        rep.note("allocator brackets skipped: threads of earlier sections did not go away within 20 s");
        return;
    }
    for round in 0..rounds {
        rep.eval();
        let tree = c02::random_tree(rng, &ids);
        let ops: Vec<Api> = (0..30).map(|_| payload_api(rng, &ids)).collect();
        let scen = json!({"kind": "allocator-bracket", "round": round, "ops": ops.iter().map(|o| o.render()).collect::<Vec<_>>()});
        let mut scratch = Report::new(&rep.args);
        // warm up lazily initialised statics outside the bracket
        if round == 0 {
            c02::run_history(&mut scratch, "C13", Front::LocalDirect, &tree, &ops, &[], false);
        }
        CTX.release_memory();
        let before = al::snapshot();
        {
            let mut inner = Report::new(&rep.args);
            let front = if round % 2 == 0 { Front::LocalDirect } else { Front::SharedColdDirect };
            c02::run_history(&mut inner, "C13", front, &tree, &ops, &[], false);
            for v in inner.violations.drain(..) {
                rep.violation(&v.clause, &v.signature, v.detail, v.scenario);
            }
            drop(inner);
        }
        CTX.release_memory();
        let after = al::snapshot();
        if after.blocks != before.blocks || after.bytes != before.bytes {
            rep.violation(
                "allocator-imbalance",
                "C13/allocator-imbalance",
                json!({"blocks_delta": after.blocks - before.blocks, "bytes_delta": after.bytes - before.bytes}),
                scen.clone(),
            );
        }
        if after.mismatches != before.mismatches {
            rep.violation(
                "layout-mismatch",
                "C13/dealloc-layout-mismatch",
                json!({"first": al::mismatch_log()}),
                scen.clone(),
            );
        }
        rep.count("allocator_brackets", 1);
        rep.count("allocations_in_brackets", after.total - before.total);
    }
}

pub fn run(args: &Args) -> Report {
    let mut rep = Report::new(args);
    #[cfg(not(miri))]
    let threads_at_start = crate::procfs::tasks().len();
    #[cfg(miri)]
    let threads_at_start = 1usize;
    rep.rule = "(a) C02-style random histories over payloads of different shape (zero-sized, u8, heap-owning, \
                align(64), 4 KiB) on every front-end with the token ledger compared after every step; (b) reload \
                histories (C05 generator) with the ledger compared after every step and pass (old values dropped by \
                the end of the pass, exactly once); (c) a reader holding a guard across a pending reload; (d) N-thread \
                insertion races (get_or_insert / load) with distinct tokens; (e) allocator-ledger balance around \
                create-use-drop of whole caches; (f) the full (stored type, requested type) matrix through \
                UntypedHandle::is / downcast_ref / AssetReadGuard::downcast / get_cached. Non-trivial = values were \
                created and dropped; distinct = distinct histories / race shapes / type pairs"
        .into();
    let miri = cfg!(miri);
    let mut rng = Rng::new(args.seed).sub(13 + args.shard as u64 * 1000);
    crate::util::quiet_panics(true);
    let _keep = Token::new();
    let ids = c02::big_ids();

    // (a)
    let n = if miri { 3 } else { args.n(400, 8_000) };
    for h in 0..n {
        rep.eval();
        let tree = c02::random_tree(&mut rng, &ids);
        let len = if miri { 8 } else { 40 };
        let ops: Vec<Api> = (0..len).map(|_| payload_api(&mut rng, &ids)).collect();
        let front = FRONTS[h % FRONTS.len()];
        c02::run_history(&mut rep, "C13", front, &tree, &ops, &[], true);
        for o in &ops {
            rep.seen("op_kinds", o.kind());
        }
        rep.nontrivial(fnv_str(&format!("{ops:?}{}", front.name())));
        if h == 0 {
            rep.sample(json!({"kind": "payload history", "front": front.name(), "ops": ops.iter().map(|o| o.render()).collect::<Vec<_>>()}));
        }
    }
    rep.count("payload_histories", n as u64);

    // (b)
    let mut j = Judge::none("C13");
    j.ledger = true;
    CTX.log_on.store(false, SeqCst);
    let nh = if miri { 1 } else { args.n(80, 1_500) };
    let base = rng.sub(77);
    for h in 0..nh {
        rep.eval();
        let mut r = base.sub(h as u64);
        let cfg = HistCfg {
            n_nodes: if miri { 2 } else { r.range(2, 8) },
            n_leaves: if miri { 2 } else { r.range(1, 4) },
            rounds: if miri { 1 } else { r.range(2, 6) },
            static_mode: !miri && h % 7 == 3 && h < 140,
            rich: true,
            silent_edits: false,
            content_mode: 3,
        };
        let (hash, _) = history(&mut rep, &mut r, &j, &cfg, json!({"reload_history": h}));
        rep.nontrivial(mix(0xb, hash));
    }
    rep.count("reload_histories", nh as u64);

    // (c)
    guard_vs_reload(&mut rep, if miri { 1 } else { args.n(10, 40) });
    inserted_value_under_guard(&mut rep, if miri { 2 } else { args.n(10, 40) });
    guards_during_reload_stream(&mut rep, if miri { 1 } else { args.n(6, 40) }, if miri { 3 } else { 400 });
    // (d)
    let rounds = if miri { 4 } else { args.n(600, 20_000) };
    let contended = insertion_races(&mut rep, &mut rng, rounds);
    rep.count("race_rounds", rounds as u64);
    rep.count("race_rounds_with_a_loser", contended);
    // (e)
    if !miri {
        allocator_bracket(&mut rep, &mut rng, args.n(40, 600), threads_at_start);
    }
    // (f)
    if args.shard == 0 {
        downcasts(&mut rep);
    }
    crate::util::quiet_panics(false);
    if ledger::overflowed() {
        rep.inconclusive("token ledger capacity exhausted");
    }
    rep.floor("ledger_checks", rep.get("ledger_checks"), if miri { 3 } else { 300 });
    rep.floor("race_rounds_with_a_loser", contended, if miri { 1 } else { (rounds / 20) as u64 });
    let _ = LocalAssetCache::<Mem>::with_source;
    rep
}
