//! C11 — directory assets list exactly the matching ids of a directory / subtree.

use crate::assets::*;
use crate::mem::Faulty;
use crate::rng::{fnv_str, mix, Rng};
use crate::trees::{gen_tree, materialise, Truth};
use crate::{Args, Report};
use assets_manager::asset::DirLoadable;
use assets_manager::source::Source;
use assets_manager::{AssetCache, Compound, LocalAssetCache};
use serde_json::{json, Value};
use std::collections::BTreeSet;

type DynSrc = Box<dyn Source + Send + Sync>;

/// A hand-written `DirLoadable` that also overrides `sub_directories`: it does not descend
/// into directories whose name has an even number of bytes.
pub struct Picky;

impl Compound for Picky {
    fn load(cache: assets_manager::AnyCache, id: &assets_manager::SharedString) -> Result<Self, assets_manager::BoxedError> {
        cache.raw_source().read(id, "a")?;
        Ok(Picky)
    }
}

fn picky_descends(dir_id: &str) -> bool {
    dir_id.rsplit('.').next().unwrap_or("").len() % 2 == 1
}

impl DirLoadable for Picky {
    fn select_ids(cache: assets_manager::AnyCache, id: &assets_manager::SharedString) -> std::io::Result<Vec<assets_manager::SharedString>> {
        let mut ids = Vec::new();
        cache.raw_source().read_dir(id, &mut |entry| {
            if let assets_manager::source::DirEntry::File(id, "a") = entry {
                ids.push(id.into());
            }
        })?;
        Ok(ids)
    }

    fn sub_directories(cache: assets_manager::AnyCache, id: &assets_manager::SharedString, mut f: impl FnMut(&str)) -> std::io::Result<()> {
        cache.raw_source().read_dir(id, &mut |entry| {
            if let assets_manager::source::DirEntry::Directory(id) = entry {
                if picky_descends(id) {
                    f(id);
                }
            }
        })
    }
}

fn picky_rec_ids(truth: &Truth, dir: &str, out: &mut Vec<String>) {
    out.extend(truth.ids_in(dir, &["a"]));
    for c in truth.dirs.iter().filter(|c| !c.is_empty() && Truth::parent(c) == Some(dir)) {
        if picky_descends(c) {
            picky_rec_ids(truth, c, out);
        }
    }
}

fn form_name(kind: &str, dir_members: bool) -> String {
    if kind == "tar" || kind == "zip" {
        format!("{kind}:{}", if dir_members { "with-dir-members" } else { "no-dir-members" })
    } else {
        kind.to_string()
    }
}

fn rec_ids(truth: &Truth, dir: &str, exts: &[&str], skip_subtree: Option<&str>) -> Vec<String> {
    let mut v = vec![];
    for d in truth.subtree(dir) {
        if d != dir && !(dir.is_empty() || d.starts_with(&format!("{dir}."))) {
            continue;
        }
        if let Some(s) = skip_subtree {
            if d == s || d.starts_with(&format!("{s}.")) {
                continue;
            }
        }
        v.extend(truth.ids_in(&d, exts));
    }
    v.sort();
    v
}

fn check_elem<T>(rep: &mut Report, prop: &str, cache: &AssetCache<Faulty<DynSrc>>, local: &LocalAssetCache<&Faulty<DynSrc>>, truth: &Truth, exts: &[&str], tname: &str, form: &str, scen: &Value) -> u64
where
    T: DirLoadable + Compound,
{
    let mut probes = 0;
    let mut bad = |rep: &mut Report, clause: &str, detail: Value| {
        let mut s = scen.clone();
        s["element_type"] = json!(tname);
        rep.violation(clause, &format!("{prop}/{form}:{clause}"), detail, s);
    };
    for d in &truth.dirs {
        probes += 1;
        // ---- load_dir
        let want = truth.ids_in(d, exts);
        match cache.load_dir::<T>(d) {
            Ok(h) => {
                let mut got: Vec<String> = h.read().ids().map(|s| s.to_string()).collect();
                if truth.lenient {
                    got.retain(|g| want.contains(g));
                }
                if got != want {
                    let mut sorted = got.clone();
                    sorted.sort();
                    sorted.dedup();
                    let clause = if sorted.len() != got.len() {
                        "directory-ids-duplicated"
                    } else if sorted != got {
                        "directory-ids-not-sorted"
                    } else {
                        "directory-ids-wrong"
                    };
                    bad(rep, clause, json!({"dir": d, "got": got, "want": want}));
                }
                // iter loads precisely those ids
                let g = h.read();
                let loaded: Vec<(String, bool)> = g
                    .iter(cache)
                    .map(|r| match r {
                        Ok(hh) => (hh.id().to_string(), true),
                        Err(e) => (e.id().to_string(), false),
                    })
                    .collect();
                let loaded: Vec<(String, bool)> = loaded.into_iter().filter(|x| !truth.lenient || want.contains(&x.0)).collect();
                let ids_loaded: Vec<String> = loaded.iter().map(|x| x.0.clone()).collect();
                if ids_loaded != want {
                    bad(rep, "iter-ids-wrong", json!({"dir": d, "got": ids_loaded, "want": want}));
                }
                // iter_cached yields precisely the ones that are cached now
                let cached_now: Vec<String> = g.iter_cached(cache).map(|hh| hh.id().to_string()).filter(|i| !truth.lenient || want.contains(i)).collect();
                let want_cached: Vec<String> = loaded.iter().filter(|x| x.1).map(|x| x.0.clone()).collect();
                if cached_now != want_cached {
                    bad(rep, "iter-cached-wrong", json!({"dir": d, "got": cached_now, "want": want_cached}));
                }
            }
            Err(e) => bad(rep, "existing-directory-fails", json!({"dir": d, "error": format!("{e:?}")})),
        }
        // same through the single-threaded cache: nothing is cached there yet
        match local.load_dir::<T>(d) {
            Ok(h) => {
                let mut got: Vec<String> = h.read().ids().map(|s| s.to_string()).collect();
                if truth.lenient {
                    got.retain(|g| want.contains(g));
                }
                if got != want {
                    bad(rep, "directory-ids-wrong-local-cache", json!({"dir": d, "got": got, "want": want}));
                }
                let n = h.read().iter_cached(local).filter(|hh| !truth.lenient || want.contains(&hh.id().to_string())).count();
                let already: usize = want.iter().filter(|i| local.contains::<T>(i)).count();
                if n != already {
                    bad(rep, "iter-cached-wrong", json!({"dir": d, "got": n, "want": already, "cache": "local"}));
                }
            }
            Err(e) => bad(rep, "existing-directory-fails", json!({"dir": d, "error": format!("{e:?}"), "cache": "local"})),
        }
        // ---- load_rec_dir: exactly the union over the readable subtree
        let want_rec = rec_ids(truth, d, exts, None);
        match cache.load_rec_dir::<T>(d) {
            Ok(h) => {
                let mut got: Vec<String> = h.read().ids().map(|s| s.to_string()).collect();
                got.sort();
                let listed = got.len();
                if truth.lenient {
                    got.retain(|g| want_rec.contains(g));
                }
                if got != want_rec {
                    let gs: BTreeSet<&String> = got.iter().collect();
                    let ws: BTreeSet<&String> = want_rec.iter().collect();
                    let clause = if gs == ws { "recursive-ids-duplicated" } else if gs.is_subset(&ws) { "recursive-ids-missing" } else { "recursive-ids-wrong" };
                    let missing: Vec<_> = ws.difference(&gs).take(8).collect();
                    let extra: Vec<_> = gs.difference(&ws).take(8).collect();
                    bad(rep, clause, json!({"dir": d, "missing": missing, "unexpected": extra, "got_len": got.len(), "want_len": want_rec.len()}));
                }
                let n = h.read().iter(cache).count();
                if n != listed {
                    bad(rep, "iter-ids-wrong", json!({"dir": d, "recursive": true, "got": n, "want": got.len()}));
                }
            }
            Err(e) => bad(rep, "existing-directory-fails", json!({"dir": d, "recursive": true, "error": format!("{e:?}")})),
        }
    }
    // ---- a missing directory is an error
    for ghost in ["ghost", "no.such.dir"] {
        if truth.dirs.contains(ghost) {
            continue;
        }
        probes += 1;
        if cache.load_dir::<T>(ghost).is_ok() || cache.load_rec_dir::<T>(ghost).is_ok() || local.load_dir::<T>(ghost).is_ok() {
            bad(rep, "missing-directory-not-an-error", json!({"dir": ghost}));
        }
        if cache.contains::<assets_manager::Directory<T>>(ghost) {
            bad(rep, "missing-directory-cached", json!({"dir": ghost}));
        }
    }
    probes
}

/// Runs every directory check on one source.
pub fn check_dirs(rep: &mut Report, prop: &str, src: DynSrc, truth: &Truth, kind: &str, dir_members: bool, scen: &Value) -> u64 {
    let form = form_name(kind, dir_members);
    let faulty = Faulty::new(src);
    let mut probes = 0;
    let cache = AssetCache::without_hot_reloading(faulty);
    {
        let local = LocalAssetCache::with_source(cache.raw_source());
        probes += check_elem::<Leaf<1, 0, true>>(rep, prop, &cache, &local, truth, Elem::LeafA.exts(), "Leaf[a]", &form, scen);
    }
    if !cfg!(miri) {
        let local = LocalAssetCache::with_source(cache.raw_source());
        probes += check_elem::<Leaf<3, 0, true>>(rep, prop, &cache, &local, truth, Elem::LeafM.exts(), "Leaf[m1,\"\",m3]", &form, scen);
    }
    {
        let local = LocalAssetCache::with_source(cache.raw_source());
        probes += check_elem::<Node<0>>(rep, prop, &cache, &local, truth, Elem::Node0.exts(), "Node0[n0] (hand-written DirLoadable)", &form, scen);
    }
    if !cfg!(miri) {
        let local = LocalAssetCache::with_source(cache.raw_source());
        probes += check_elem::<std::sync::Arc<Leaf<1, 0, true>>>(rep, prop, &cache, &local, truth, Elem::ArcLeafA.exts(), "Arc<Leaf[a]>", &form, scen);
    }
    // ---- a type that chooses its sub-directories itself, plain and wrapped in Arc
    for d in truth.dirs.iter().take(if cfg!(miri) { 2 } else { usize::MAX }) {
        probes += 1;
        let mut want = vec![];
        picky_rec_ids(truth, d, &mut want);
        want.sort();
        let mut results = vec![];
        for arc in [false, true] {
            let r = if arc {
                cache.load_rec_dir::<std::sync::Arc<Picky>>(d).map(|h| h.read().ids().map(|s| s.to_string()).collect::<Vec<_>>())
            } else {
                cache.load_rec_dir::<Picky>(d).map(|h| h.read().ids().map(|s| s.to_string()).collect::<Vec<_>>())
            };
            match r {
                Ok(mut got) => {
                    got.sort();
                    if truth.lenient {
                        got.retain(|g| want.contains(g));
                    }
                    results.push(got);
                }
                Err(e) => {
                    rep.violation("existing-directory-fails", &format!("{prop}/{form}:existing-directory-fails"),
                        json!({"dir": d, "recursive": true, "type": if arc { "Arc<Picky>" } else { "Picky" }, "error": format!("{e:?}")}), scen.clone());
                }
            }
        }
        for (k, got) in results.iter().enumerate() {
            if *got != want {
                rep.violation(
                    "own-sub-directories",
                    &format!("{prop}/{form}:recursive-ids-wrong:type-with-own-sub-directories{}", if k == 1 { ":arc" } else { "" }),
                    json!({"dir": d, "got": got, "want": want, "rule": "sub-directories whose name has an even number of bytes are not entered"}),
                    scen.clone(),
                );
            }
        }
        rep.count("own_sub_directories_probes", 1);
    }
    // ---- one read of the directory itself fails (the first, the second...): the load fails as a
    // whole or, if it goes on, is complete; nothing partial is returned or cached
    for d in truth.dirs.iter().filter(|d| truth.dirs.iter().any(|c| Truth::parent(c) == Some(d.as_str()))).take(if cfg!(miri) { 1 } else { 3 }) {
        for nth in 0..3 {
            probes += 1;
            let fresh = AssetCache::without_hot_reloading(cache.raw_source());
            cache.raw_source().clear();
            let before = cache.raw_source().denied.load(std::sync::atomic::Ordering::SeqCst);
            cache.raw_source().deny_dir_read(d, nth);
            let mut want = rec_ids(truth, d, Elem::LeafA.exts(), None);
            want.sort();
            let got = fresh.load_rec_dir::<Leaf<1, 0, true>>(d).map(|h| {
                let mut v: Vec<String> = h.read().ids().map(|s| s.to_string()).collect();
                v.sort();
                v
            });
            let fired = cache.raw_source().denied.load(std::sync::atomic::Ordering::SeqCst) != before;
            cache.raw_source().clear();
            if let Ok(mut got) = got {
                if truth.lenient {
                    got.retain(|g| want.contains(g));
                }
                if fired && got != want {
                    rep.violation(
                        "own-directory-read-fails",
                        &format!("{prop}/{form}:partial-listing-after-failed-read-of-the-directory-itself"),
                        json!({"dir": d, "failed_read_dir_number": nth, "got": got, "want": want}),
                        scen.clone(),
                    );
                }
            }
            // whatever happened, the same call is complete once the source is fine again
            if fired {
                let again = fresh.load_rec_dir::<Leaf<1, 0, true>>(d).map(|h| {
                    let mut v: Vec<String> = h.read().ids().map(|s| s.to_string()).collect();
                    v.sort();
                    if truth.lenient {
                        v.retain(|g| want.contains(g));
                    }
                    v
                });
                if again.as_ref().ok() != Some(&want) {
                    rep.violation(
                        "own-directory-read-fails",
                        &format!("{prop}/{form}:not-recovered-after-failed-read-of-the-directory-itself"),
                        json!({"dir": d, "failed_read_dir_number": nth, "got": format!("{again:?}"), "want": want}),
                        scen.clone(),
                    );
                }
                rep.count("own_directory_read_faults", 1);
            }
        }
    }
    // ---- an unreadable sub-directory is skipped without hiding its siblings
    let subdirs: Vec<String> = truth.dirs.iter().filter(|d| !d.is_empty()).cloned().collect();
    for sub in subdirs.iter().take(if cfg!(miri) { 1 } else { 4 }) {
        probes += 1;
        let parent = Truth::parent(sub).unwrap_or("").to_string();
        let fresh = AssetCache::without_hot_reloading(cache.raw_source());
        cache.raw_source().clear();
        cache.raw_source().deny_dir(sub);
        let want = rec_ids(truth, &parent, Elem::LeafA.exts(), Some(sub));
        match fresh.load_rec_dir::<Leaf<1, 0, true>>(&parent) {
            Ok(h) => {
                let mut got: Vec<String> = h.read().ids().map(|s| s.to_string()).collect();
                got.sort();
                if truth.lenient {
                    got.retain(|g| want.contains(g));
                }
                if got != want {
                    rep.violation(
                        "unreadable-subdirectory",
                        &format!("{prop}/{form}:unreadable-subdirectory-hides-siblings"),
                        json!({"parent": parent, "denied": sub, "got": got, "want": want}),
                        scen.clone(),
                    );
                }
                rep.count("denied_subdirectory_cases", 1);
            }
            Err(e) => rep.violation(
                "unreadable-subdirectory",
                &format!("{prop}/{form}:unreadable-subdirectory-fails-parent"),
                json!({"parent": parent, "denied": sub, "error": format!("{e:?}")}),
                scen.clone(),
            ),
        }
        // the denied directory itself is an error when asked for directly
        if fresh.load_dir::<Leaf<1, 0, true>>(sub).is_ok() {
            rep.violation("denied-directory-listed", &format!("{prop}/{form}:denied-directory-listed"), json!({"dir": sub}), scen.clone());
        }
        cache.raw_source().clear();
    }
    probes
}

pub fn run(args: &Args) -> Report {
    let mut rep = Report::new(args);
    rep.rule = "the trees and source forms of C04; for every directory id (root \"\" included) and element types with \
                one extension, several extensions incl. the empty one, a hand-written DirLoadable compound and an \
                Arc-wrapped asset: load_dir ids == sorted, duplicate-free ids of the files directly inside with a \
                matching extension; load_rec_dir ids == the union over the subtree (as multiset and as set); iter \
                loads precisely those ids; iter_cached yields precisely the cached ones; a missing directory is an \
                error; a sub-directory whose read_dir is denied is skipped without hiding its siblings; on AssetCache \
                and LocalAssetCache. Non-trivial = a (tree, form) with at least one matching file below the root; \
                distinct = distinct (tree, form)"
        .into();
    let miri = cfg!(miri);
    let ntrees = if miri { 1 } else { args.n(24, 400) };
    let base = Rng::new(args.seed).sub(4);
    for i in 0..ntrees {
        if i % args.nshards != args.shard {
            continue;
        }
        let mut r = base.sub(i as u64);
        let t = gen_tree(&mut r, i);
        let mut m = materialise(&t, &mut r, "c11", true);
        for c in &t.classes {
            rep.seen("name_classes", c);
        }
        let mut sources = std::mem::take(&mut m.sources);
        if miri {
            sources.truncate(2);
        }
        for (form, src) in sources {
            rep.eval();
            let truth = t.truth(form.dir_members);
            let scen = crate::props::c04::tree_scenario(&t, i, &form.label, &form.detail);
            let probes = check_dirs(&mut rep, "C11", src, &truth, form.kind, form.dir_members, &scen);
            rep.count("probes", probes);
            rep.seen("forms", &format!("{}:{}", form.kind, if form.dir_members { "dirs" } else { "nodirs" }));
            if truth.files.keys().any(|(id, _)| id.contains('.')) {
                rep.nontrivial(mix(fnv_str(&form.label), i as u64));
            }
        }
        if rep.samples.len() < 2 {
            rep.sample(json!({"tree": t.describe()}));
        }
    }
    rep.floor_set("name_classes", if miri { 2 } else { 9 });
    rep.floor_set("forms", if miri { 1 } else { 5 });
    rep.floor("denied_subdirectory_cases", rep.get("denied_subdirectory_cases"), if miri { 1 } else { 20 });
    rep
}
