//! C18 — ReloadId / AtomicReloadId are a monotone maximum, atomically.

use crate::assets::{Leaf, LEAF_A};
use crate::hist::{interleaving_hash, linearizable, HEv, Lin, Spec};
use crate::mem::{Hot, Mem};
use crate::rng::{mix, Rng};
use crate::{Args, Report};
use assets_manager::{AssetCache, AtomicReloadId, ReloadId};
use serde_json::json;
use std::sync::atomic::{AtomicBool, AtomicUsize, Ordering::SeqCst};

type LeafA = Leaf<1, 0, true>;

/// Mints ids 0..=k the honest way: by reloading a `Mem`-backed asset k times.
pub fn mint_ids(k: usize, rep: &mut Report) -> Option<Vec<ReloadId>> {
    let mem = Mem::new("c18", Hot::Yes);
    mem.write("x", "a", b"v0");
    let cache = AssetCache::with_source(mem.clone());
    let h = cache.load::<LeafA>("x").expect("load x");
    let _ = LEAF_A;
    let mut ids = vec![h.last_reload_id()];
    for i in 1..=k {
        mem.write("x", "a", format!("v{i}").as_bytes());
        mem.notify_file("x", "a");
        let sent = mem.sent();
        if !crate::util::wait_until(60_000, || cache.verif_events_handled() == Some(sent)) {
            rep.inconclusive("mint_ids: event barrier watchdog expired");
            return None;
        }
        cache.hot_reload();
        ids.push(h.last_reload_id());
    }
    Some(ids)
}

#[derive(Clone, Debug, PartialEq, Eq, Hash)]
pub enum AOp {
    Update(usize),
    FetchMax(usize),
    Swap(usize),
    Store(usize),
    Load,
}

/// result: for Update 0/1, for FetchMax/Swap/Load the index of the id, Store 0
#[derive(Clone)]
struct Reg(usize);

impl Spec for Reg {
    type Op = AOp;
    type Ret = usize;
    fn apply(&mut self, op: &AOp) -> usize {
        match *op {
            AOp::Update(i) => {
                let grew = i > self.0;
                if grew {
                    self.0 = i;
                }
                grew as usize
            }
            AOp::FetchMax(i) => {
                let old = self.0;
                self.0 = old.max(i);
                old
            }
            AOp::Swap(i) => std::mem::replace(&mut self.0, i),
            AOp::Store(i) => {
                self.0 = i;
                0
            }
            AOp::Load => self.0,
        }
    }
}

fn index_of(ids: &[ReloadId], id: ReloadId) -> usize {
    ids.iter().position(|x| *x == id).unwrap_or(usize::MAX)
}

fn apply_real(a: &AtomicReloadId, ids: &[ReloadId], op: &AOp) -> usize {
    match *op {
        AOp::Update(i) => a.update(ids[i]) as usize,
        AOp::FetchMax(i) => index_of(ids, a.fetch_max(ids[i])),
        AOp::Swap(i) => index_of(ids, a.swap(ids[i])),
        AOp::Store(i) => {
            a.store(ids[i]);
            0
        }
        AOp::Load => index_of(ids, a.load()),
    }
}

fn gen_op(r: &mut Rng, k: usize, max_only: bool) -> AOp {
    let i = r.below(k + 1);
    let n = if max_only { 3 } else { 5 };
    match r.below(n) {
        0 => AOp::Update(i),
        1 => AOp::FetchMax(i),
        2 => AOp::Load,
        3 => AOp::Swap(i),
        _ => AOp::Store(i),
    }
}

pub fn run(args: &Args) -> Report {
    let mut rep = Report::new(args);
    rep.rule = "sequential: every (old,new) pair and every short op sequence over honestly minted ids, \
                compared with max(); concurrent: random histories of update/fetch_max/swap/store/load on one \
                AtomicReloadId recorded at the call boundary and checked for linearizability against a \
                sequential register; a history is non-trivial when at least two operations of different \
                threads overlapped in logical time; distinct = distinct (operations, interleaving) hashes"
        .into();
    let mut rng = Rng::new(args.seed).sub(18 + args.shard as u64 * 1000);
    let miri = cfg!(miri);
    let k = if miri { 5 } else { 12 };

    let Some(ids) = mint_ids(k, &mut rep) else {
        return rep;
    };
    rep.count("ids_minted", ids.len() as u64);

    // --- NEVER is least, minted ids strictly increase
    if ids[0] != ReloadId::NEVER {
        rep.violation(
            "never-is-initial",
            "C18/never-is-initial",
            json!({"first": format!("{:?}", ids[0])}),
            json!({"mint": k}),
        );
    }
    for w in 0..ids.len() {
        for v in 0..ids.len() {
            rep.eval();
            let exp = w.cmp(&v);
            if ids[w].cmp(&ids[v]) != exp || (ids[w] == ids[v]) != (w == v) {
                rep.violation(
                    "order",
                    "C18/id-order",
                    json!({"a": w, "b": v, "ida": format!("{:?}", ids[w]), "idb": format!("{:?}", ids[v])}),
                    json!({"mint": k}),
                );
            }
        }
    }
    if ReloadId::default() != ReloadId::NEVER || AtomicReloadId::new().load() != ReloadId::NEVER
        || AtomicReloadId::default().load() != ReloadId::NEVER
    {
        rep.violation("never-default", "C18/never-default", json!({}), json!({}));
    }

    // --- ReloadId::update, exhaustive over pairs
    for a in 0..ids.len() {
        for b in 0..ids.len() {
            rep.eval();
            let mut x = ids[a];
            let grew = x.update(ids[b]);
            let exp_grew = b > a;
            let exp = ids[a.max(b)];
            if grew != exp_grew || x != exp {
                rep.violation(
                    "reloadid-update-pair",
                    "C18/reloadid-update",
                    json!({"old": a, "new": b, "returned": grew, "stored": index_of(&ids, x)}),
                    json!({"old": a, "new": b}),
                );
            }
            rep.nontrivial(mix(1, (a * 64 + b) as u64));
            // same through AtomicReloadId, single-threaded
            let at = AtomicReloadId::with_value(ids[a]);
            let grew = at.update(ids[b]);
            if grew != exp_grew || at.load() != exp {
                rep.violation(
                    "atomic-update-pair",
                    "C18/atomic-update",
                    json!({"old": a, "new": b, "returned": grew, "stored": index_of(&ids, at.load())}),
                    json!({"old": a, "new": b}),
                );
            }
            let at = AtomicReloadId::with_value(ids[a]);
            let prev = at.fetch_max(ids[b]);
            if prev != ids[a] || at.load() != exp {
                rep.violation(
                    "atomic-fetch-max-pair",
                    "C18/atomic-fetch-max",
                    json!({"old": a, "new": b, "prev": index_of(&ids, prev), "stored": index_of(&ids, at.load())}),
                    json!({"old": a, "new": b}),
                );
            }
            let at = AtomicReloadId::with_value(ids[a]);
            let prev = at.swap(ids[b]);
            if prev != ids[a] || at.load() != ids[b] {
                rep.violation("atomic-swap-pair", "C18/atomic-swap", json!({"old": a, "new": b}), json!({}));
            }
        }
    }
    rep.count("pairs_exhaustive", (ids.len() * ids.len()) as u64);

    // --- sequences over a small alphabet, exhaustive: ReloadId::update chains
    let small = ids.len().min(5);
    let seq_len = if miri { 3 } else { 4 };
    let total = small.pow(seq_len as u32 + 1);
    for code in 0..total {
        rep.eval();
        let mut c = code;
        let start = c % small;
        c /= small;
        let mut x = ids[start];
        let mut m = start;
        for _ in 0..seq_len {
            let n = c % small;
            c /= small;
            let grew = x.update(ids[n]);
            if grew != (n > m) || x != ids[m.max(n)] {
                rep.violation(
                    "reloadid-update-seq",
                    "C18/reloadid-update",
                    json!({"code": code, "step_new": n, "max_before": m, "returned": grew}),
                    json!({"code": code, "alphabet": small, "len": seq_len}),
                );
                break;
            }
            m = m.max(n);
        }
    }
    rep.count("sequences_exhaustive", total as u64);

    // --- sequential random op sequences on AtomicReloadId against the spec
    let nseq = args.n(2_000, 50_000) / if miri { 100 } else { 1 };
    for s in 0..nseq {
        rep.eval();
        let init = rng.below(k + 1);
        let at = AtomicReloadId::with_value(ids[init]);
        let mut spec = Reg(init);
        let len = rng.range(1, 8);
        let ops: Vec<AOp> = (0..len).map(|_| gen_op(&mut rng, k, false)).collect();
        for (i, op) in ops.iter().enumerate() {
            let got = apply_real(&at, &ids, op);
            let exp = spec.apply(op);
            if got != exp {
                rep.violation(
                    "atomic-sequential",
                    "C18/atomic-sequential",
                    json!({"step": i, "op": format!("{op:?}"), "got": got, "expected": exp}),
                    json!({"init": init, "ops": format!("{ops:?}")}),
                );
                break;
            }
        }
        if s < 2 {
            rep.sample(json!({"kind": "sequential", "init": init, "ops": format!("{ops:?}")}));
        }
    }

    // --- concurrent histories
    let nhist = if miri { args.n(12, 40) } else { args.n(3_000, 20_000) };
    let mut overlapped = 0u64;
    let mut inconclusive = 0u64;
    let mut distinct_growth_checks = 0u64;
    for hno in 0..nhist {
        rep.eval();
        let nthreads = if miri { rng.range(2, 3) } else { rng.range(2, 8) };
        let per = if miri { rng.range(1, 3) } else { rng.range(1, 6) };
        let max_only = rng.chance(1, 2);
        let init = rng.below(k + 1);
        let plans: Vec<Vec<AOp>> = (0..nthreads)
            .map(|_| (0..per).map(|_| gen_op(&mut rng, k, max_only)).collect())
            .collect();
        let at = AtomicReloadId::with_value(ids[init]);
        let go = AtomicBool::new(false);
        let ready = AtomicUsize::new(0);
        let mut hist: Vec<HEv<AOp, usize>> = vec![];
        std::thread::scope(|s| {
            let handles: Vec<_> = plans
                .iter()
                .enumerate()
                .map(|(t, plan)| {
                    let at = &at;
                    let ids = &ids;
                    let go = &go;
                    let ready = &ready;
                    s.spawn(move || {
                        let mut rec = crate::hist::Recorder::new(t as u32);
                        ready.fetch_add(1, SeqCst);
                        while !go.load(SeqCst) {
                            crate::util::pause();
                            #[cfg(miri)]
                            std::thread::yield_now();
                        }
                        for op in plan {
                            rec.call(op.clone(), || apply_real(at, ids, op));
                        }
                        rec.evs
                    })
                })
                .collect();
            while ready.load(SeqCst) < nthreads {
                std::thread::yield_now();
            }
            go.store(true, SeqCst);
            for h in handles {
                hist.extend(h.join().unwrap());
            }
        });
        let final_idx = index_of(&ids, at.load());
        // non-triviality: two ops of different threads overlap
        let mut ov = false;
        'o: for a in &hist {
            for b in &hist {
                if a.thread != b.thread && a.call < b.ret && b.call < a.ret {
                    ov = true;
                    break 'o;
                }
            }
        }
        let ih = interleaving_hash(&hist);
        rep.interleaving(ih);
        let ops_hash = crate::rng::fnv_str(&format!("{init}{plans:?}"));
        if ov {
            overlapped += 1;
            rep.nontrivial(mix(ops_hash, ih));
        }
        // linearizability (final load appended as a last operation)
        let last = hist.iter().map(|e| e.ret).max().unwrap_or(0);
        let mut full = hist.clone();
        full.push(HEv {
            thread: 99,
            op: AOp::Load,
            call: last + 1,
            ret: last + 2,
            result: final_idx,
        });
        let mut budget = 300_000u64;
        match linearizable(&Reg(init), &full, &mut budget) {
            Lin::Ok => {}
            Lin::Inconclusive => inconclusive += 1,
            Lin::Violation => {
                let dump: Vec<_> = full
                    .iter()
                    .map(|e| json!({"t": e.thread, "op": format!("{:?}", e.op), "call": e.call, "ret": e.ret, "res": e.result}))
                    .collect();
                rep.violation(
                    "not-linearizable",
                    "C18/not-linearizable",
                    json!({"history": dump, "init": init, "final": final_idx}),
                    json!({"init": init, "plans": format!("{plans:?}"), "threads": nthreads}),
                );
            }
        }
        // direct max-register rules when only update/fetch_max/load were used
        if max_only {
            distinct_growth_checks += 1;
            let offered_max = plans
                .iter()
                .flatten()
                .filter_map(|o| match o {
                    AOp::Update(i) | AOp::FetchMax(i) => Some(*i),
                    _ => None,
                })
                .max()
                .unwrap_or(0)
                .max(init);
            let mut bad = None;
            if final_idx != offered_max {
                bad = Some(format!("final {final_idx} != max offered {offered_max}"));
            }
            // for each value: at most one `true`; the max (if it grew) exactly one
            // "grew" answers: update -> 1 ; fetch_max(i) returning prev < i
            let mut grew: std::collections::BTreeMap<usize, usize> = Default::default();
            for e in &hist {
                match e.op {
                    AOp::Update(i) if e.result == 1 => *grew.entry(i).or_default() += 1,
                    AOp::FetchMax(i) if e.result < i => *grew.entry(i).or_default() += 1,
                    _ => {}
                }
            }
            for (v, n) in &grew {
                if *n > 1 {
                    bad = Some(format!("growth to {v} reported to {n} callers"));
                }
                if *v <= init {
                    bad = Some(format!("growth to {v} reported though initial value was {init}"));
                }
            }
            if offered_max > init && grew.get(&offered_max).copied().unwrap_or(0) != 1 {
                bad = Some(format!(
                    "growth to the maximum {offered_max} reported to {} callers",
                    grew.get(&offered_max).copied().unwrap_or(0)
                ));
            }
            if let Some(b) = bad {
                rep.violation(
                    "max-register",
                    "C18/max-register",
                    json!({"what": b, "init": init, "final": final_idx}),
                    json!({"init": init, "plans": format!("{plans:?}")}),
                );
            }
        }
        if hno < 2 {
            rep.sample(json!({"kind": "concurrent", "threads": nthreads, "init": init,
                "plans": format!("{plans:?}"), "final": final_idx, "overlapped": ov}));
        }
    }
    rep.count("concurrent_histories", nhist as u64);
    rep.count("histories_with_overlap", overlapped);
    rep.count("lin_checker_inconclusive", inconclusive);
    rep.count("max_register_histories", distinct_growth_checks);
    let il = rep.n_interleavings();
    rep.count("distinct_interleavings", il);
    rep.exhaustive = Some(false);
    let need = if miri { 3 } else { args.n(300, 15_000) as u64 };
    rep.floor("histories_with_overlap", overlapped, need);
    rep.floor_each(
        "lin_checker_conclusive_share_pct",
        100 - inconclusive * 100 / (nhist as u64).max(1),
        95,
    );
    rep
}
