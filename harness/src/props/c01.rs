//! C01 — one stable handle per (id, type), whatever the thread interleaving.

use crate::assets::*;
use crate::hist::{interleaving_hash, linearizable, HEv, Lin, Spec};
use crate::ledger;
use crate::mem::{tick, Hot, Mem};
use crate::rng::{fnv_str, mix, Rng};
use crate::{Args, Report};
use assets_manager::AssetCache;
use serde_json::json;
use std::collections::{BTreeMap, BTreeSet};
use std::sync::atomic::{AtomicBool, AtomicU64, AtomicUsize, Ordering::SeqCst};

#[derive(Clone, Copy, Debug, PartialEq, Eq, Hash, PartialOrd, Ord)]
enum K {
    Leaf,
    Node,
    Tok,
}

#[derive(Clone, Debug, PartialEq, Eq, Hash)]
enum COp {
    Load,
    GetCached,
    GetOrInsert,
    Contains,
}

#[derive(Clone, Debug, PartialEq, Eq)]
struct Res {
    /// address of the handle, if one was returned
    ptr: Option<usize>,
    /// token of the value seen through the handle
    token: Option<usize>,
    /// what `contains` said (for Contains), or whether a handle was returned
    present: bool,
    /// get_or_insert: the offered token, and whether it was already dropped when the call returned
    offered: Option<(usize, bool)>,
    ok: bool,
}

fn do_op(cache: &AssetCache<Mem>, any: bool, kind: K, id: &str, op: &COp, n: u64) -> Res {
    macro_rules! via {
        (|$c:ident| $e:expr) => {
            if any {
                let $c = cache.as_any_cache();
                $e
            } else {
                let $c = cache;
                $e
            }
        };
    }
    fn seen<T: assets_manager::Storable + Describe>(h: &assets_manager::Handle<T>) -> (usize, Option<usize>, bool) {
        let g = h.read();
        let tok = g.token_serial();
        let live = tok.is_none_or(ledger::is_live);
        (h as *const _ as usize, tok, live)
    }
    let mut r = Res { ptr: None, token: None, present: false, offered: None, ok: true };
    macro_rules! handle {
        ($h:expr) => {{
            let (p, t, live) = seen($h);
            r.ptr = Some(p);
            r.token = t;
            r.present = true;
            r.ok = live && $h.id().as_str() == id;
        }};
    }
    match (kind, op) {
        (K::Leaf, COp::Load) => match via!(|c| c.load::<Leaf<1, 0, true>>(id)) {
            Ok(h) => handle!(h),
            Err(_) => r.ok = false,
        },
        (K::Node, COp::Load) => match via!(|c| c.load::<Node<0>>(id)) {
            Ok(h) => handle!(h),
            Err(_) => r.ok = false,
        },
        (K::Tok, COp::Load) | (K::Tok, COp::GetOrInsert) | (K::Leaf, COp::GetOrInsert) | (K::Node, COp::GetOrInsert) => {
            // creation with a caller-provided value
            match kind {
                K::Tok => {
                    let v = PTok::new(n);
                    let offered = v.token.serial();
                    let h = via!(|c| c.get_or_insert::<PTok>(id, v));
                    handle!(h);
                    r.offered = Some((offered, r.token == Some(offered) || ledger::is_dropped(offered)));
                }
                K::Leaf => {
                    let v = Leaf::<1, 0, true>::from_n(n);
                    let offered = v.token.serial();
                    let h = via!(|c| c.get_or_insert::<Leaf<1, 0, true>>(id, v));
                    handle!(h);
                    r.offered = Some((offered, r.token == Some(offered) || ledger::is_dropped(offered)));
                }
                K::Node => {
                    let v = Node::<0>::from_n(n);
                    let offered = v.token.serial();
                    let h = via!(|c| c.get_or_insert::<Node<0>>(id, v));
                    handle!(h);
                    r.offered = Some((offered, r.token == Some(offered) || ledger::is_dropped(offered)));
                }
            }
        }
        (K::Leaf, COp::GetCached) => {
            if let Some(h) = via!(|c| c.get_cached::<Leaf<1, 0, true>>(id)) {
                handle!(h)
            }
        }
        (K::Node, COp::GetCached) => {
            if let Some(h) = via!(|c| c.get_cached::<Node<0>>(id)) {
                handle!(h)
            }
        }
        (K::Tok, COp::GetCached) => {
            if let Some(h) = via!(|c| c.get_cached::<PTok>(id)) {
                handle!(h)
            }
        }
        (K::Leaf, COp::Contains) => r.present = via!(|c| c.contains::<Leaf<1, 0, true>>(id)),
        (K::Node, COp::Contains) => r.present = via!(|c| c.contains::<Node<0>>(id)),
        (K::Tok, COp::Contains) => r.present = via!(|c| c.contains::<PTok>(id)),
    }
    r
}

/// Sequential specification of one key inside an epoch: absent -> present, once.
#[derive(Clone)]
struct Once(bool);
impl Spec for Once {
    type Op = COp;
    type Ret = bool;
    fn apply(&mut self, op: &COp) -> bool {
        match op {
            COp::Load | COp::GetOrInsert => {
                self.0 = true;
                true
            }
            COp::GetCached | COp::Contains => self.0,
        }
    }
}

type Ev = (u32, (K, String), COp, u64, u64, Res);

fn check_epoch(
    rep: &mut Report,
    evs: &[Ev],
    initial: &BTreeMap<(K, String), bool>,
    scen: &serde_json::Value,
    lin_budget: &mut (u64, u64),
) -> u64 {
    let mut per_key: BTreeMap<(K, String), Vec<&Ev>> = BTreeMap::new();
    for e in evs {
        per_key.entry(e.1.clone()).or_default().push(e);
    }
    let mut racy_keys = 0;
    for (key, es) in &per_key {
        let keyd = format!("{:?} {:?}", key.0, key.1);
        // op-level sanity
        for e in es {
            if !e.5.ok {
                rep.violation("handle-unreadable", "C01/handle-unreadable", json!({"key": keyd, "op": format!("{:?}", e.2), "result": format!("{:?}", e.5)}), scen.clone());
            }
            if matches!(e.2, COp::Load | COp::GetOrInsert) && e.5.ptr.is_none() {
                rep.violation("creation-returned-nothing", "C01/creation-returned-nothing", json!({"key": keyd}), scen.clone());
            }
            if let Some((tok, dropped)) = e.5.offered {
                if !dropped {
                    rep.violation("loser-not-dropped", "C01/loser-not-dropped-at-return", json!({"key": keyd, "offered_token": tok, "winner": e.5.token}), scen.clone());
                }
            }
        }
        // one handle, one value
        let mut ptrs: Vec<usize> = es.iter().filter_map(|e| e.5.ptr).collect();
        ptrs.sort();
        ptrs.dedup();
        let mut toks: Vec<Option<usize>> = es.iter().filter(|e| e.5.ptr.is_some()).map(|e| e.5.token).collect();
        toks.sort();
        toks.dedup();
        if ptrs.len() > 1 || toks.len() > 1 {
            rep.violation(
                "different-handles",
                "C01/different-handles-for-one-key",
                json!({"key": keyd, "distinct_handle_addresses": ptrs.len(), "distinct_values": toks.len()}),
                scen.clone(),
            );
        }
        // presence never flips back: no op that starts after a "present" answer may say "absent"
        let initially = initial.get(key).copied().unwrap_or(false);
        let first_present_ret = if initially { Some(0) } else { es.iter().filter(|e| e.5.present).map(|e| e.4).min() };
        if let Some(t) = first_present_ret {
            if let Some(bad) = es.iter().find(|e| !e.5.present && e.3 > t) {
                rep.violation(
                    "absent-after-present",
                    "C01/absent-after-present",
                    json!({"key": keyd, "present_returned_at": t, "absent_op": format!("{:?}", bad.2), "absent_called_at": bad.3}),
                    scen.clone(),
                );
            }
        }
        // cross-check with the generic checker on short histories
        if es.len() <= 24 {
            let hist: Vec<HEv<COp, bool>> = es
                .iter()
                .map(|e| HEv { thread: e.0, op: e.2.clone(), call: e.3, ret: e.4, result: e.5.present })
                .collect();
            let mut budget = 200_000;
            match linearizable(&Once(initially), &hist, &mut budget) {
                Lin::Ok => lin_budget.0 += 1,
                Lin::Inconclusive => lin_budget.1 += 1,
                Lin::Violation => rep.violation("not-linearizable", "C01/not-linearizable", json!({"key": keyd, "ops": es.len()}), scen.clone()),
            }
            rep.interleaving(interleaving_hash(&hist));
        }
        // was this key really raced?  (two creation ops overlapping in time)
        let creators: Vec<&&Ev> = es.iter().filter(|e| matches!(e.2, COp::Load | COp::GetOrInsert)).collect();
        if creators.iter().any(|a| creators.iter().any(|b| a.0 != b.0 && a.3 < b.4 && b.3 < a.4)) {
            racy_keys += 1;
        }
    }
    racy_keys
}

fn stress_round(rep: &mut Report, rng: &mut Rng, round: usize, lin: &mut (u64, u64)) -> (u64, usize) {
    let miri = cfg!(miri);
    let nthreads = if miri { 3 } else { rng.range(2, 16) };
    let nkeys = if miri { 2 } else { rng.range(1, 8) };
    let per = if miri { 3 } else { rng.range(2, 10) };
    let ncpu = *rng.pick(&[1usize, 2, 3, 4, 6, 8, 12, 16]);
    let hot = round % 3 != 0;
    let mem = Mem::new("c01", if hot { Hot::Yes } else { Hot::No });
    mem.set_logging(false);
    // ids are opaque keys: every fourth round spells them with a '/'
    let sep = if round % 4 == 3 { '/' } else { '.' };
    let ids: Vec<String> = (0..nkeys).map(|i| format!("k{sep}{i}")).collect();
    for id in &ids {
        mem.write(id, "a", format!("leaf-{id}").as_bytes());
        mem.write(id, "n0", format!("file {id} a").as_bytes());
    }
    let mark = ledger::mark();
    let dd0 = ledger::double_drops();
    let mut cache = crate::util::with_cpus(ncpu, || AssetCache::with_source(mem.clone()));
    let scen = json!({"round": round, "threads": nthreads, "keys": nkeys, "ops_per_thread": per, "cpus_at_construction": ncpu,
        "expected_shards": crate::util::shard_count_for_cpus(ncpu), "reloader": hot});
    let mut racy_total = 0;
    let epochs = if miri { 1 } else { rng.range(1, 3) };
    for epoch in 0..epochs {
        let go = AtomicBool::new(false);
        let ready = AtomicUsize::new(0);
        let plans: Vec<Vec<(K, String, COp, bool)>> = (0..nthreads)
            .map(|_| {
                (0..per)
                    .map(|_| {
                        let kind = *rng.pick(&[K::Leaf, K::Node, K::Tok]);
                        let op = match rng.below(8) {
                            0..=2 => COp::Load,
                            3 | 4 => COp::GetOrInsert,
                            5 | 6 => COp::GetCached,
                            _ => COp::Contains,
                        };
                        (kind, rng.pick(&ids).clone(), op, rng.chance(1, 2))
                    })
                    .collect()
            })
            .collect();
        // presence of every key at the quiescent point before the epoch
        let mut initial: BTreeMap<(K, String), bool> = BTreeMap::new();
        for id in &ids {
            initial.insert((K::Leaf, id.clone()), cache.contains::<Leaf<1, 0, true>>(id));
            initial.insert((K::Node, id.clone()), cache.contains::<Node<0>>(id));
            initial.insert((K::Tok, id.clone()), cache.contains::<PTok>(id));
        }
        let mut evs: Vec<Ev> = vec![];
        std::thread::scope(|s| {
            let hs: Vec<_> = plans
                .iter()
                .enumerate()
                .map(|(t, plan)| {
                    let (cache, go, ready) = (&cache, &go, &ready);
                    s.spawn(move || {
                        let mut out: Vec<Ev> = Vec::with_capacity(plan.len());
                        ready.fetch_add(1, SeqCst);
                        while !go.load(SeqCst) {
                            crate::util::pause();
                            #[cfg(miri)]
                            std::thread::yield_now();
                        }
                        for (i, (kind, id, op, any)) in plan.iter().enumerate() {
                            let call = tick();
                            let res = do_op(cache, *any, *kind, id, op, (t * 1000 + i) as u64);
                            let ret = tick();
                            out.push((t as u32, (*kind, id.clone()), op.clone(), call, ret, res));
                        }
                        out
                    })
                })
                .collect();
            while ready.load(SeqCst) < nthreads {
                std::thread::yield_now();
            }
            go.store(true, SeqCst);
            for h in hs {
                evs.extend(h.join().unwrap());
            }
        });
        let mut es = scen.clone();
        es["epoch"] = json!(epoch);
        racy_total += check_epoch(rep, &evs, &initial, &es, lin);
        rep.count("operations", evs.len() as u64);
        // quiescent point: exactly one live value per present key
        let present: Vec<Option<usize>> = {
            let mut v = vec![];
            for id in &ids {
                v.push(cache.get_cached::<Leaf<1, 0, true>>(id).map(|h| h.read().token.serial()));
                v.push(cache.get_cached::<Node<0>>(id).map(|h| h.read().token.serial()));
                v.push(cache.get_cached::<PTok>(id).map(|h| h.get().token.serial()));
            }
            v
        };
        let mut expected: Vec<usize> = present.iter().flatten().cloned().collect();
        expected.sort();
        let live = ledger::live_since(mark);
        if live != expected {
            rep.violation(
                "survivors",
                "C01/not-exactly-one-surviving-value",
                json!({"live_tokens": live.len(), "cached_entries": expected.len()}),
                es.clone(),
            );
        }
        // end of epoch: removals need &mut
        if epoch + 1 < epochs {
            match rng.below(3) {
                0 => cache.clear(),
                1 => {
                    for id in &ids {
                        cache.remove::<Node<0>>(id);
                        let _ = cache.take::<PTok>(id);
                    }
                }
                _ => {
                    for id in ids.iter().step_by(2) {
                        cache.remove::<Leaf<1, 0, true>>(id);
                    }
                }
            }
        }
    }
    drop(cache);
    if !ledger::live_since(mark).is_empty() || ledger::double_drops() != dd0 {
        rep.violation(
            "ledger-after-drop",
            "C01/ledger-after-drop",
            json!({"still_live": ledger::live_since(mark).len(), "double_drops": ledger::double_drops() - dd0}),
            scen.clone(),
        );
    }
    rep.seen("shard_counts", &crate::util::shard_count_for_cpus(ncpu).to_string());
    if round == 0 {
        rep.sample(json!({"kind": "stress round", "scenario": scen}));
    }
    (racy_total, nthreads)
}

/// Racers `load` one compound whose recipe makes them all meet *inside* the
/// loader, i.e. provably after the cache-miss check and before any insertion.
fn forced_miss(rep: &mut Report, rng: &mut Rng, round: usize) -> bool {
    let racers = if cfg!(miri) { 2 } else { rng.range(2, 8) };
    let ncpu = *rng.pick(&[1usize, 2, 3, 4, 6, 8, 12, 16]);
    let mem = Mem::new("c01f", if round % 2 == 0 { Hot::Yes } else { Hot::No });
    mem.set_logging(false);
    let name = format!("miss-{round}");
    mem.write("x", "a", b"x-leaf");
    mem.write("f", "n0", format!("rv {name} {racers} load L10t x").as_bytes());
    let mark = ledger::mark();
    CTX.rv_wait_ms.store(if cfg!(miri) { 600_000 } else { 5_000 }, SeqCst);
    let met0 = CTX.rv_met.load(SeqCst);
    CTX.max_in_flight.store(0, SeqCst);
    let cache = crate::util::with_cpus(ncpu, || AssetCache::with_source(mem.clone()));
    let mut results = vec![];
    std::thread::scope(|s| {
        let hs: Vec<_> = (0..racers)
            .map(|t| {
                let cache = &cache;
                s.spawn(move || {
                    let h = if t % 2 == 0 {
                        cache.load::<Node<0>>("f").expect("forced-miss load")
                    } else {
                        cache.as_any_cache().load::<Node<0>>("f").expect("forced-miss load")
                    };
                    let g = h.read();
                    (h as *const _ as usize, g.token.serial(), g.token.is_live())
                })
            })
            .collect();
        for h in hs {
            results.push(h.join().unwrap());
        }
    });
    let met = CTX.rv_met.load(SeqCst) > met0;
    let in_flight = CTX.max_in_flight.load(SeqCst);
    let scen = json!({"kind": "forced simultaneous miss", "racers": racers, "all_met_inside_loader": met, "max_loaders_in_flight": in_flight,
        "cpus_at_construction": ncpu});
    let mut distinct = results.clone();
    distinct.sort();
    distinct.dedup();
    if distinct.len() != 1 || !distinct[0].2 {
        rep.violation(
            "racers-disagree",
            "C01/different-handles-for-one-key",
            json!({"distinct (handle, value) pairs": distinct.len(), "results": format!("{results:?}")}),
            scen.clone(),
        );
    }
    // exactly one Node value survives (plus the single leaf it loaded)
    let live = ledger::live_since(mark);
    let node_tok = cache.get_cached::<Node<0>>("f").map(|h| h.read().token.serial());
    let leaf_tok = cache.get_cached::<Leaf<1, 0, true>>("x").map(|h| h.read().token.serial());
    let mut expected: Vec<usize> = [node_tok, leaf_tok].iter().flatten().cloned().collect();
    expected.sort();
    if live != expected {
        rep.violation(
            "survivors",
            "C01/not-exactly-one-surviving-value",
            json!({"live_tokens": live.len(), "expected": expected.len(), "values_created": ledger::created_since(mark)}),
            scen.clone(),
        );
    }
    rep.count("forced_miss_values_created", ledger::created_since(mark) as u64);
    if round == 0 {
        rep.sample(scen);
    }
    met && in_flight >= 2
}

/// Handles taken early stay valid and readable while the maps grow and rehash.
fn long_lived(rep: &mut Report, rng: &mut Rng, round: usize) {
    let miri = cfg!(miri);
    let nh = if miri { 6 } else { 64 };
    let inserts = if miri { 40 } else { 20_000 };
    let ncpu = *rng.pick(&[1usize, 1, 2, 3, 16]);
    let mem = Mem::new("c01l", Hot::No);
    mem.set_logging(false);
    for i in 0..nh {
        mem.write(&format!("old.{i}"), "a", format!("old-{i}").as_bytes());
    }
    let mark = ledger::mark();
    let cache = crate::util::with_cpus(ncpu, || AssetCache::with_source(mem.clone()));
    let handles: Vec<_> = (0..nh)
        .map(|i| {
            if i % 2 == 0 {
                let h = cache.load::<Leaf<1, 0, true>>(&format!("old.{i}")).expect("old leaf");
                (h as *const _ as usize, h.read().token.serial(), Some(h), None)
            } else {
                let h = cache.get_or_insert::<PTok>(&format!("old.{i}"), PTok::new(i as u64));
                (h as *const _ as usize, h.get().token.serial(), None, Some(h))
            }
        })
        .collect();
    let stop = AtomicBool::new(false);
    let bad = AtomicU64::new(0);
    let derefs = AtomicU64::new(0);
    let writers = if miri { 1 } else { 4 };
    std::thread::scope(|s| {
        for _ in 0..if miri { 1 } else { 4 } {
            s.spawn(|| {
                while !stop.load(SeqCst) {
                    for (i, (_, tok, lh, ph)) in handles.iter().enumerate() {
                        let ok = match (lh, ph) {
                            (Some(h), _) => {
                                let g = h.read();
                                g.token.serial() == *tok && g.token.is_live() && h.id().as_str() == format!("old.{i}")
                            }
                            (_, Some(h)) => {
                                let v = h.get();
                                v.token.serial() == *tok && v.token.is_live() && v.n == i as u64 && v.data.iter().all(|w| *w == v.n)
                            }
                            _ => true,
                        };
                        if !ok {
                            bad.fetch_add(1, SeqCst);
                        }
                        derefs.fetch_add(1, SeqCst);
                    }
                }
            });
        }
        let mut ws = vec![];
        for w in 0..writers {
            let cache = &cache;
            ws.push(s.spawn(move || {
                for i in 0..inserts / writers {
                    let id = format!("new.{w}.{i}");
                    if i % 2 == 0 {
                        cache.get_or_insert::<PTok>(&id, PTok::new(i as u64));
                    } else {
                        cache.as_any_cache().get_or_insert::<u8>(&id, i as u8);
                    }
                }
            }));
        }
        for w in ws {
            let _ = w.join();
        }
        stop.store(true, SeqCst);
    });
    let scen = json!({"kind": "long-lived handles", "handles": nh, "unrelated_insertions": inserts, "cpus_at_construction": ncpu,
        "expected_shards": crate::util::shard_count_for_cpus(ncpu)});
    if bad.load(SeqCst) > 0 {
        rep.violation("old-handle-invalid", "C01/old-handle-invalid-after-growth", json!({"bad_dereferences": bad.load(SeqCst)}), scen.clone());
    }
    // the same handles are still what the cache returns
    for (i, (addr, _, lh, _)) in handles.iter().enumerate() {
        let now = if lh.is_some() {
            cache.get_cached::<Leaf<1, 0, true>>(&format!("old.{i}")).map(|h| h as *const _ as usize)
        } else {
            cache.get_cached::<PTok>(&format!("old.{i}")).map(|h| h as *const _ as usize)
        };
        if now != Some(*addr) {
            rep.violation("handle-moved", "C01/different-handles-for-one-key", json!({"index": i, "before": addr, "now": now}), scen.clone());
            break;
        }
    }
    rep.count("old_handle_dereferences_during_growth", derefs.load(SeqCst));
    rep.seen("shard_counts", &crate::util::shard_count_for_cpus(ncpu).to_string());
    drop(handles);
    drop(cache);
    if !ledger::live_since(mark).is_empty() {
        rep.violation("ledger-after-drop", "C01/ledger-after-drop", json!({"still_live": ledger::live_since(mark).len()}), scen.clone());
    }
    if round == 0 {
        rep.sample(scen);
    }
}


/// A value whose destructor panics while it is armed.
struct Bomb(u64);
static BOMBS_ARMED: AtomicBool = AtomicBool::new(false);
static BOMBS_WENT_OFF: AtomicUsize = AtomicUsize::new(0);

impl assets_manager::asset::Storable for Bomb {}
impl assets_manager::asset::NotHotReloaded for Bomb {}

impl Drop for Bomb {
    fn drop(&mut self) {
        if BOMBS_ARMED.load(SeqCst) && !std::thread::panicking() {
            BOMBS_WENT_OFF.fetch_add(1, SeqCst);
            panic!("vh: destructor of a value that lost an insertion race");
        }
    }
}

/// The loser of a creation race is dropped by the cache; if its destructor panics, that call
/// panics - and nothing else: the winner stays, the key and every other key stay usable from
/// every thread.
fn loser_destructor_panics(rep: &mut Report, rounds: usize) {
    crate::util::quiet_panics(true);
    for round in 0..rounds {
        rep.eval();
        let mem = Mem::new("c01b", Hot::No);
        let cache = crate::util::with_cpus(1, || AssetCache::with_source(mem.clone()));
        let go = AtomicBool::new(false);
        BOMBS_ARMED.store(true, SeqCst);
        let before = BOMBS_WENT_OFF.load(SeqCst);
        let nthreads = 4;
        let outcomes: Vec<Result<u64, ()>> = std::thread::scope(|s| {
            let hs: Vec<_> = (0..nthreads)
                .map(|t| {
                    let (cache, go) = (&cache, &go);
                    s.spawn(move || {
                        while !go.load(SeqCst) {
                            crate::util::pause();
                        }
                        std::panic::catch_unwind(std::panic::AssertUnwindSafe(|| cache.get_or_insert::<Bomb>("k", Bomb(t as u64)).read().0)).map_err(|_| ())
                    })
                })
                .collect();
            go.store(true, SeqCst);
            hs.into_iter().map(|h| h.join().unwrap_or(Err(()))).collect()
        });
        let went_off = BOMBS_WENT_OFF.load(SeqCst) - before;
        // afterwards: the key and 40 other keys (4 shards: every shard is hit) from two threads
        let usable = std::thread::scope(|s| {
            let hs: Vec<_> = (0..2)
                .map(|t| {
                    let cache = &cache;
                    s.spawn(move || {
                        std::panic::catch_unwind(std::panic::AssertUnwindSafe(|| {
                            let mut ok = cache.contains::<Bomb>("k") && cache.get_cached::<Bomb>("k").is_some();
                            for i in 0..40 {
                                let id = format!("other{t}.{i}");
                                ok &= *cache.get_or_insert::<u8>(&id, i as u8).read() == i as u8 && cache.contains::<u8>(&id);
                            }
                            ok
                        }))
                        .unwrap_or(false)
                    })
                })
                .collect();
            hs.into_iter().all(|h| h.join().unwrap_or(false))
        });
        BOMBS_ARMED.store(false, SeqCst);
        let winners: BTreeSet<u64> = outcomes.iter().filter_map(|o| o.as_ref().ok().copied()).collect();
        let scen = json!({"kind": "loser of a creation race panics in its destructor", "round": round, "threads": nthreads,
            "destructors_that_panicked": went_off, "calls_that_returned": outcomes.iter().filter(|o| o.is_ok()).count()});
        if !usable {
            rep.violation("cache-unusable", "C01/cache-unusable-after-loser-destructor-panic", json!({"what": "contains / get_cached / get_or_insert panicked or gave wrong answers afterwards"}), scen.clone());
        }
        if winners.len() > 1 {
            rep.violation("different-winners", "C01/different-handles-for-one-key", json!({"values_seen": winners}), scen.clone());
        }
        if went_off > 0 {
            rep.count("rounds_with_a_panicking_loser", 1);
            rep.nontrivial(mix(0xb0b, round as u64));
        }
        drop(cache);
    }
    crate::util::quiet_panics(false);
}

pub fn run(args: &Args) -> Report {
    let mut rep = Report::new(args);
    rep.rule = "rounds of N in 2..16 threads doing load / get_cached / get_or_insert / contains through AssetCache and \
                its AnyCache view over 1..8 ids x 3 types, common start, fresh cache (fresh hash seed) per round, shard \
                count chosen through CPU affinity at construction (4..64), epochs separated by remove/take/clear; every \
                operation is recorded at the call boundary with one logical clock and each key's history is checked: \
                one handle address and one value, presence never flips back (cross-checked by an exhaustive \
                linearizability search against an insert-once register), every loser dropped when its call returned, \
                exactly one surviving value. Forced simultaneous misses: racers meet inside the loader (after the miss \
                check, before any insertion). Long-lived handles are dereferenced by reader threads during 20 000 \
                unrelated insertions. A round is non-trivial when two creating operations on one key overlapped; \
                distinct = distinct (configuration, interleaving) hashes"
        .into();
    let miri = cfg!(miri);
    let mut rng = Rng::new(args.seed).sub(1 + args.shard as u64 * 1000);
    CTX.log_on.store(false, SeqCst);
    let rounds = if miri { 2 } else { args.n(400, 5_000) };
    let mut racy_rounds = 0u64;
    let mut lin = (0u64, 0u64);
    for round in 0..rounds {
        rep.eval();
        let (racy, n) = stress_round(&mut rep, &mut rng, round, &mut lin);
        if racy > 0 {
            racy_rounds += 1;
            rep.nontrivial(mix(round as u64, mix(n as u64, rep.n_interleavings())));
        }
    }
    rep.count("stress_rounds", rounds as u64);
    rep.count("rounds_with_overlapping_creations", racy_rounds);
    rep.count("per_key_histories_linearizable", lin.0);
    rep.count("per_key_histories_checker_inconclusive", lin.1);
    let forced = if miri { 2 } else { args.n(60, 1_200) };
    let mut verified = 0u64;
    for round in 0..forced {
        rep.eval();
        if forced_miss(&mut rep, &mut rng, round) {
            verified += 1;
            rep.nontrivial(mix(0xf0, round as u64));
        }
    }
    rep.count("forced_miss_rounds", forced as u64);
    rep.count("forced_miss_rounds_verified_simultaneous", verified);
    rep.count("rendezvous_timeouts", CTX.rv_timeouts.load(SeqCst));
    for round in 0..if miri { 1 } else { args.n(3, 20) } {
        rep.eval();
        long_lived(&mut rep, &mut rng, round);
        rep.nontrivial(mix(0x11, round as u64));
    }
    loser_destructor_panics(&mut rep, if miri { 2 } else { args.n(60, 600) });
    let il = rep.n_interleavings();
    rep.count("distinct_interleavings", il);
    let _ = fnv_str;
    rep.floor("forced_miss_rounds_verified_simultaneous", verified, if miri { 1 } else { args.n(50, 1_000) as u64 });
    rep.floor_set("shard_counts", if miri { 1 } else { 3 });
    rep.floor("rounds_with_overlapping_creations", racy_rounds, if miri { 0 } else { (rounds / 10) as u64 });
    rep.floor("distinct_interleavings", il, if miri { 1 } else { 20 });
    rep
}
