//! C03 — a load returns what the source holds: extension order, defaults, errors.

use crate::assets::*;
use crate::mem::{FaultKey, Hot, Mem};
use crate::model::Model;
use crate::props::c02::{Front, FRONTS};
use crate::rng::{fnv, fnv_str, mix, Rng};
use crate::scen::{expect_outcome, same_error, Fe, Outcome};
use crate::{Args, Report};
use assets_manager::loader::{BytesLoader, LoadFrom, ParseLoader};
use assets_manager::{Asset, AssetCache, SharedBytes, SharedString};
use serde_json::json;
use std::io::ErrorKind;

const KINDS: [ErrorKind; 6] = [
    ErrorKind::PermissionDenied,
    ErrorKind::Interrupted,
    ErrorKind::UnexpectedEof,
    ErrorKind::InvalidData,
    ErrorKind::TimedOut,
    ErrorKind::Other,
];

#[derive(Clone, Copy, Debug, PartialEq, Eq)]
enum St {
    Absent,
    Unreadable(usize),
    Undecodable,
    Valid,
}

fn states() -> Vec<St> {
    let mut v = vec![St::Absent, St::Undecodable, St::Valid];
    v.extend((0..KINDS.len()).map(St::Unreadable));
    v
}

struct Raw(Vec<u8>);
impl From<Vec<u8>> for Raw {
    fn from(v: Vec<u8>) -> Self {
        Raw(v)
    }
}
impl Asset for Raw {
    const EXTENSION: &'static str = "raw";
    type Loader = LoadFrom<Vec<u8>, BytesLoader>;
}

struct RawShared(SharedBytes);
impl From<SharedBytes> for RawShared {
    fn from(v: SharedBytes) -> Self {
        RawShared(v)
    }
}
impl Asset for RawShared {
    const EXTENSION: &'static str = "raw";
    type Loader = LoadFrom<SharedBytes, BytesLoader>;
}

struct Num(i64);
impl From<i64> for Num {
    fn from(v: i64) -> Self {
        Num(v)
    }
}
impl Asset for Num {
    const EXTENSION: &'static str = "num";
    type Loader = LoadFrom<i64, ParseLoader>;
}

fn setup_case(mem: &Mem, model: &mut Model, id: &str, extensions: &[&str], sts: &[St]) {
    for (ext, st) in extensions.iter().zip(sts) {
        match st {
            St::Absent => {}
            St::Undecodable => {
                // half of the undecodable files make the loader fail with an io::Error
                let c = if ext.len() % 2 == 0 { format!("!io-{ext}") } else { format!("!bad-{ext}") };
                mem.write(id, ext, c.as_bytes());
                model.write(0, id, ext, c.as_bytes());
            }
            St::Valid => {
                let c = format!("ok-{id}-{ext}");
                mem.write(id, ext, c.as_bytes());
                model.write(0, id, ext, c.as_bytes());
            }
            St::Unreadable(k) => {
                // the file exists but cannot be read
                let c = format!("ok-{id}-{ext}");
                mem.write(id, ext, c.as_bytes());
                model.write(0, id, ext, c.as_bytes());
                let key = FaultKey::FileAlways {
                    id: id.to_string(),
                    ext: ext.to_string(),
                };
                mem.add_fault(key.clone(), KINDS[*k]);
                model.caches[0].read_faults.push((key, KINDS[*k]));
            }
        }
    }
}

fn product_case(rep: &mut Report, case_no: usize, e: u8, d: u8, sts: &[St], mode: u8, front: Front) {
    rep.eval();
    let extensions = exts(e);
    let ty = Ty::Leaf { e, d, h: true };
    let id = "dir.item";
    let scen = json!({"type": ty.tag(), "extensions": extensions, "states": format!("{sts:?}"),
                      "content_mode": mode, "front": front.name()});
    let mem = Mem::new("c03", if front.hot() { Hot::Yes } else { Hot::No });
    mem.set_content_mode(mode);
    let mut model = Model::new(vec![(front.hot(), Default::default())]);
    setup_case(&mem, &mut model, id, extensions, sts);
    let real = front.build(mem.clone());
    let fe = front.fe();

    let got = real.load(fe, ty, id);
    let exp = expect_outcome(model.load(0, ty, id, &mut None));
    let mut failed = false;
    match (&got, &exp) {
        (Outcome::Ok(h), Outcome::Ok(v)) => {
            if h.v != *v {
                rep.violation(
                    "wrong-value",
                    "C03/wrong-value",
                    json!({"got": format!("{:?}", h.v), "expected": format!("{v:?}")}),
                    scen.clone(),
                );
            }
            if let V::Leaf { ext, .. } = &h.v {
                rep.seen("winning_ext_position", &format!("{:?}", extensions.iter().position(|x| x == ext)));
            } else {
                rep.seen("winning_ext_position", "default");
            }
        }
        (Outcome::Err(e1), Outcome::Err(e2)) => {
            failed = true;
            let mut ok = same_error(e1, e2);
            // an I/O class error must carry one of the kinds that really occurred
            if let ErrClass::Io(k) = &e1.class {
                let occurred: Vec<String> = sts
                    .iter()
                    .filter_map(|s| match s {
                        St::Unreadable(k) => Some(io_kind_name(KINDS[*k])),
                        _ => None,
                    })
                    .collect();
                ok = ok && occurred.contains(k);
            }
            if !ok {
                rep.violation(
                    "wrong-error",
                    "C03/wrong-error",
                    json!({"got": format!("{e1:?}"), "expected": format!("{e2:?}")}),
                    scen.clone(),
                );
            }
            rep.seen("error_classes", &format!("{:?}", e2.class).chars().take(14).collect::<String>());
        }
        _ => rep.violation(
            "wrong-outcome",
            "C03/wrong-outcome",
            json!({"got": format!("{got:?}"), "expected": format!("{exp:?}")}),
            scen.clone(),
        ),
    }
    if failed {
        // a failure caches nothing
        let c = real.contains(Fe::Direct, ty, id);
        let g = real.get_cached(fe, ty, id);
        if c != Outcome::Ok(false) || !matches!(g, Outcome::Ok(None)) {
            rep.violation(
                "failure-cached",
                "C03/failure-cached-something",
                json!({"contains": format!("{c:?}"), "get_cached": format!("{g:?}")}),
                scen.clone(),
            );
        }
        // the same call succeeds as soon as the source is fixed
        if let Some(first) = extensions.first() {
            mem.clear_faults();
            model.clear_faults();
            let c = format!("fixed-{case_no}");
            mem.write(id, first, c.as_bytes());
            model.write(0, id, first, c.as_bytes());
            let got = real.load(fe, ty, id);
            let exp = expect_outcome(model.load(0, ty, id, &mut None));
            let ok = match (&got, &exp) {
                (Outcome::Ok(h), Outcome::Ok(v)) => {
                    h.v == *v
                        && h.v
                            == V::Leaf {
                                ext: first.to_string(),
                                len: c.len(),
                                hash: content_hash(c.as_bytes()),
                            }
                }
                _ => false,
            };
            if !ok {
                rep.violation(
                    "not-recovered",
                    "C03/not-recovered-after-repair",
                    json!({"got": format!("{got:?}"), "expected": format!("{exp:?}")}),
                    scen.clone(),
                );
            }
            rep.count("repairs_checked", 1);
        }
    }
    rep.nontrivial(mix(
        fnv_str(&format!("{sts:?}")),
        mix(e as u64 * 16 + d as u64, mode as u64 * 8 + (front as u64)),
    ));
    if case_no == 777 {
        rep.sample(json!({"kind": "product", "case": scen, "got": format!("{got:?}")}));
    }
}

fn chains(rep: &mut Report, rng: &mut Rng, n: usize) {
    for round in 0..n {
        let depth = rng.range(1, 6);
        let fail_level = rng.below(depth + 2); // depth+1 = nothing fails; depth = the leaf
        let leaf_fault = rng.below(3); // 0 absent, 1 undecodable, 2 unreadable
        let front = FRONTS[round % FRONTS.len()];
        rep.eval();
        let mem = Mem::new("c03c", if front.hot() { Hot::Yes } else { Hot::No });
        mem.set_content_mode(3);
        let mut model = Model::new(vec![(front.hot(), Default::default())]);
        let name = |l: usize| format!("chain.l{l}");
        let mut unreadable_leaf = false;
        let mut w = |id: &str, ext: &str, c: &str| {
            mem.write(id, ext, c.as_bytes());
            model.write(0, id, ext, c.as_bytes());
        };
        for l in 0..depth {
            let next = if l + 1 == depth {
                "load L10t chain.leaf".to_string()
            } else {
                format!("load N0 {}", name(l + 1))
            };
            let recipe = if l == fail_level { format!("{next} fail") } else { next };
            w(&name(l), "n0", &recipe);
        }
        if fail_level == depth {
            match leaf_fault {
                0 => {}
                1 => w("chain.leaf", "a", "!x"),
                _ => {
                    w("chain.leaf", "a", "ok");
                    unreadable_leaf = true;
                }
            }
        } else {
            w("chain.leaf", "a", "ok");
        }
        if unreadable_leaf {
            let key = FaultKey::FileAlways {
                id: "chain.leaf".into(),
                ext: "a".into(),
            };
            mem.add_fault(key.clone(), ErrorKind::PermissionDenied);
            model.caches[0].read_faults.push((key, ErrorKind::PermissionDenied));
        }
        let scen = json!({"kind": "chain", "depth": depth, "fail_level": fail_level, "leaf_fault": leaf_fault, "front": front.name()});
        let real = front.build(mem.clone());
        let fe = front.fe();
        let got = real.load(fe, Ty::Node(0), &name(0));
        let exp = expect_outcome(model.load(0, Ty::Node(0), &name(0), &mut None));
        let ok = match (&got, &exp) {
            (Outcome::Ok(h), Outcome::Ok(v)) => h.v == *v,
            (Outcome::Err(a), Outcome::Err(b)) => {
                // the error names the requested id and wraps the nested chain
                a.id == name(0) && same_error(a, b)
            }
            _ => false,
        };
        if !ok {
            rep.violation(
                "chain-result",
                "C03/compound-chain-result",
                json!({"got": format!("{got:?}"), "expected": format!("{exp:?}")}),
                scen.clone(),
            );
        }
        // which levels got cached on the way
        for l in 0..depth {
            let c = real.contains(fe, Ty::Node(0), &name(l));
            let m = model.contains(0, Ty::Node(0), &name(l));
            if c != Outcome::Ok(m) {
                rep.violation(
                    "chain-presence",
                    "C03/compound-chain-presence",
                    json!({"level": l, "contains": format!("{c:?}"), "expected": m}),
                    scen.clone(),
                );
            }
        }
        let c = real.contains(fe, LEAF_A, "chain.leaf");
        let m = model.contains(0, LEAF_A, "chain.leaf");
        if c != Outcome::Ok(m) {
            rep.violation("chain-presence", "C03/compound-chain-presence", json!({"level": "leaf", "expected": m}), scen.clone());
        }
        // repair and retry
        if matches!(exp, Outcome::Err(_)) {
            mem.clear_faults();
            model.clear_faults();
            for l in 0..depth {
                let next = if l + 1 == depth {
                    "load L10t chain.leaf".to_string()
                } else {
                    format!("load N0 {}", name(l + 1))
                };
                mem.write(&name(l), "n0", next.as_bytes());
                model.write(0, &name(l), "n0", next.as_bytes());
            }
            mem.write("chain.leaf", "a", b"ok");
            model.write(0, "chain.leaf", "a", b"ok");
            let got = real.load(fe, Ty::Node(0), &name(0));
            let exp = expect_outcome(model.load(0, Ty::Node(0), &name(0), &mut None));
            let ok = matches!((&got, &exp), (Outcome::Ok(h), Outcome::Ok(v)) if h.v == *v);
            if !ok {
                rep.violation(
                    "chain-not-recovered",
                    "C03/not-recovered-after-repair",
                    json!({"got": format!("{got:?}"), "expected": format!("{exp:?}")}),
                    scen.clone(),
                );
            }
            rep.count("chain_repairs_checked", 1);
        }
        rep.seen("chain_depths", &depth.to_string());
        rep.nontrivial(mix(0xc4a1, mix(depth as u64, mix(fail_level as u64, leaf_fault as u64 * 8 + front as u64))));
        if round == 0 {
            rep.sample(json!({"case": scen, "got": format!("{got:?}")}));
        }
    }
}

/// Every order of three repair edits on a three-extension type, from every
/// combination of broken starting states.
fn repair_orders(rep: &mut Report) {
    let ty = LEAF_M;
    let extensions = exts(3);
    let orders: [[usize; 3]; 6] = [[0, 1, 2], [0, 2, 1], [1, 0, 2], [1, 2, 0], [2, 0, 1], [2, 1, 0]];
    let broken = [St::Absent, St::Undecodable, St::Unreadable(0)];
    for (oi, order) in orders.iter().enumerate() {
        for start in 0..27usize {
            rep.eval();
            let sts: Vec<St> = (0..3).map(|i| broken[(start / 3usize.pow(i as u32)) % 3]).collect();
            let front = FRONTS[(oi + start) % FRONTS.len()];
            let scen = json!({"kind": "repair-order", "order": order, "start": format!("{sts:?}"), "front": front.name()});
            let mem = Mem::new("c03r", if front.hot() { Hot::Yes } else { Hot::No });
            let mut model = Model::new(vec![(front.hot(), Default::default())]);
            setup_case(&mem, &mut model, "it", extensions, &sts);
            let real = front.build(mem.clone());
            let fe = front.fe();
            let mut step = |what: &str, model: &mut Model| {
                let got = real.load(fe, ty, "it");
                let exp = expect_outcome(model.load(0, ty, "it", &mut None));
                let ok = match (&got, &exp) {
                    (Outcome::Ok(h), Outcome::Ok(v)) => h.v == *v,
                    (Outcome::Err(a), Outcome::Err(b)) => same_error(a, b),
                    _ => false,
                };
                let c = real.contains(fe, ty, "it");
                let m = model.contains(0, ty, "it");
                (ok && c == Outcome::Ok(m), format!("{what}: got {got:?} expected {exp:?}; contains {c:?} expected {m}"))
            };
            let (ok, why) = step("initial", &mut model);
            let mut bad = if ok { None } else { Some(why) };
            for &e in order {
                if bad.is_some() {
                    break;
                }
                // repair extension e
                let ext = extensions[e];
                let key = FaultKey::FileAlways {
                    id: "it".into(),
                    ext: ext.to_string(),
                };
                // remove the fault rule for this extension only
                mem.clear_faults();
                model.clear_faults();
                for (j, st) in sts.iter().enumerate() {
                    if let St::Unreadable(k) = st {
                        let still_broken = !order[..=order.iter().position(|x| *x == e).unwrap()].contains(&j);
                        if still_broken {
                            let kj = FaultKey::FileAlways {
                                id: "it".into(),
                                ext: extensions[j].to_string(),
                            };
                            mem.add_fault(kj.clone(), KINDS[*k]);
                            model.caches[0].read_faults.push((kj, KINDS[*k]));
                        }
                    }
                }
                let _ = key;
                let c = format!("repaired-{ext}");
                mem.write("it", ext, c.as_bytes());
                model.write(0, "it", ext, c.as_bytes());
                let (ok, why) = step(&format!("after repairing {ext:?}"), &mut model);
                if !ok {
                    bad = Some(why);
                }
            }
            if let Some(why) = bad {
                rep.violation("repair-order", "C03/repair-order", json!(why), scen.clone());
            }
            // in the end the asset is loaded
            if !matches!(real.contains(fe, ty, "it"), Outcome::Ok(true)) {
                rep.violation("repair-order-final", "C03/not-recovered-after-repair", json!("not cached after all repairs"), scen.clone());
            }
            rep.nontrivial(mix(0x4e9a, (oi * 27 + start) as u64));
        }
    }
    rep.count("repair_order_cases", 6 * 27);
}

fn byte_exactness(rep: &mut Report, rng: &mut Rng, big: usize) {
    let mut contents: Vec<(String, Vec<u8>)> = vec![
        ("empty".into(), vec![]),
        ("one".into(), vec![0x41]),
        ("nul".into(), vec![0]),
        ("4095".into(), rng.bytes(4095)),
        ("4096".into(), rng.bytes(4096)),
        ("4097".into(), rng.bytes(4097)),
        ("non-utf8".into(), vec![0xff, 0xfe, 0x80, 0x00, 0xc3]),
        ("whitespace".into(), b"  \t padded text \r\n\n".to_vec()),
        ("crlf".into(), b"a\r\nb\r\n".to_vec()),
        ("bom".into(), vec![0xef, 0xbb, 0xbf, b'x']),
    ];
    let mut huge = rng.bytes(big);
    if huge[0] == b'!' {
        huge[0] = b'?';
    }
    contents.push((format!("{big}B"), huge));
    for (name, data) in &contents {
        for mode in 0..3u8 {
            rep.eval();
            let scen = json!({"kind": "bytes", "content": name, "len": data.len(), "content_mode": mode});
            let mem = Mem::new("c03b", Hot::No);
            mem.set_content_mode(mode);
            let mut d = data.clone();
            if d.first() == Some(&b'!') {
                d[0] = b'?';
            }
            mem.write("x", "a", &d);
            mem.write("x", "raw", &d);
            mem.write("x", "txt", &d);
            let cache = AssetCache::without_hot_reloading(mem.clone());
            // identity loader of the harness
            match cache.load::<Leaf<1, 0, true>>("x") {
                Ok(h) => {
                    let want = V::Leaf {
                        ext: "a".into(),
                        len: d.len(),
                        hash: fnv(&d),
                    };
                    if h.read().v != want {
                        rep.violation("bytes-leaf", "C03/bytes-not-exact", json!({"got": format!("{:?}", h.read().v)}), scen.clone());
                    }
                }
                Err(e) => rep.violation("bytes-leaf-err", "C03/bytes-not-exact", json!(format!("{e:?}")), scen.clone()),
            }
            // the crate's own loaders
            match cache.load::<Raw>("x") {
                Ok(h) if h.read().0 == d => {}
                other => rep.violation("bytes-raw", "C03/bytes-not-exact", json!(format!("{:?}", other.map(|h| h.read().0.len()))), scen.clone()),
            }
            match cache.load::<RawShared>("x") {
                Ok(h) if *h.read().0 == *d => {}
                other => rep.violation("bytes-shared", "C03/bytes-not-exact", json!(format!("{:?}", other.map(|h| h.read().0.len()))), scen.clone()),
            }
            let utf8 = std::str::from_utf8(&d).ok();
            let s1 = cache.load::<String>("x").map(|h| h.read().clone());
            let s2 = cache.load::<SharedString>("x").map(|h| h.read().to_string());
            let s3 = cache.load::<Box<str>>("x").map(|h| h.read().to_string());
            for (which, got) in [("String", s1), ("SharedString", s2), ("Box<str>", s3)] {
                match (utf8, got) {
                    (Some(u), Ok(g)) if g == u => {}
                    (None, Err(e)) if e.id() == "x" => {}
                    (u, g) => rep.violation(
                        "string-loader",
                        "C03/string-not-exact",
                        json!({"which": which, "utf8": u.is_some(), "got": format!("{g:?}")}),
                        scen.clone(),
                    ),
                }
            }
            rep.seen("content_classes", name);
            rep.nontrivial(mix(fnv(&d), mode as u64));
        }
    }
    // ParseLoader trims, StringLoader does not
    for (text, want) in [(" 42 \n", Some(42i64)), ("-7", Some(-7)), ("4 2", None), ("", None), ("\t9\t", Some(9))] {
        rep.eval();
        let mem = Mem::new("c03n", Hot::No);
        mem.write("n", "num", text.as_bytes());
        mem.write("n", "txt", text.as_bytes());
        let cache = AssetCache::without_hot_reloading(mem);
        let got = cache.load::<Num>("n").map(|h| h.read().0);
        let s = cache.load::<String>("n").map(|h| h.read().clone());
        let ok = match (&got, want) {
            (Ok(g), Some(w)) => *g == w,
            (Err(e), None) => e.id() == "n",
            _ => false,
        } && matches!(&s, Ok(t) if t == text);
        if !ok {
            rep.violation("parse-loader", "C03/parse-loader", json!({"text": text, "got": format!("{got:?}"), "string": format!("{s:?}")}), json!({"text": text}));
        }
        if got.is_err() && cache.contains::<Num>("n") {
            rep.violation("failure-cached", "C03/failure-cached-something", json!({"text": text}), json!({"text": text}));
        }
    }
}


#[derive(Clone, Copy, Debug, PartialEq, Eq)]
enum FsSt {
    Absent,
    Valid,
    Undecodable,
    /// a symbolic link to itself: the entry exists, reading it fails with ELOOP
    Loop,
    /// a directory where the file is expected: "a directory is not a file", i.e. absent
    Dir,
}

/// E. the real `FileSystem` source with entries that exist but cannot be read
/// (injecting faults needs no wrapper here: symbolic link loops fail for root too).
fn real_fs_errors(rep: &mut Report) {
    use assets_manager::source::FileSystem;
    use assets_manager::LocalAssetCache;
    let all = [FsSt::Absent, FsSt::Valid, FsSt::Undecodable, FsSt::Loop, FsSt::Dir];
    let dir = crate::util::scratch_dir("c03fs");
    let root = dir.canonicalize().expect("canonicalize scratch");
    let exts2 = exts(2);
    let mut case = 0;
    for s0 in all {
        for s1 in all {
            for nested in [false, true] {
                case += 1;
                rep.eval();
                let id = if nested { format!("sub.c{case}") } else { format!("c{case}") };
                let base = if nested { root.join("sub") } else { root.clone() };
                std::fs::create_dir_all(&base).unwrap();
                let sts = [s0, s1];
                for (ext, st) in exts2.iter().zip(sts) {
                    let path = base.join(format!("c{case}.{ext}"));
                    match st {
                        FsSt::Absent => {}
                        FsSt::Valid => std::fs::write(&path, format!("ok-{case}-{ext}")).unwrap(),
                        FsSt::Undecodable => std::fs::write(&path, format!("!bad-{ext}")).unwrap(),
                        FsSt::Loop => std::os::unix::fs::symlink(&path, &path).unwrap(),
                        FsSt::Dir => std::fs::create_dir(&path).unwrap(),
                    }
                }
                let scen = json!({"part": "real filesystem", "id": id, "extensions": exts2, "states": format!("{sts:?}")});
                // what the statement asks for
                let winner = sts.iter().position(|s| *s == FsSt::Valid);
                let want: Result<&str, &str> = match winner {
                    Some(i) => Ok(exts2[i]),
                    None if sts.contains(&FsSt::Undecodable) => Err("conversion"),
                    None if sts.contains(&FsSt::Loop) => Err("io"),
                    None => Err("not-found"),
                };
                // an undecodable earlier extension does not stop the search, nor does an unreadable one
                let fronts = ["AssetCache::new", "AssetCache::without_hot_reloading", "LocalAssetCache"];
                for (fi, fname) in fronts.iter().enumerate() {
                    let run = |default: bool| -> Result<V, E> {
                        macro_rules! go {
                            ($c:expr) => {
                                if default {
                                    $c.load::<Leaf<2, 1, true>>(&id).map(|h| h.read().v.clone()).map_err(|e| describe_error(&e))
                                } else {
                                    $c.load::<Leaf<2, 0, true>>(&id).map(|h| h.read().v.clone()).map_err(|e| describe_error(&e))
                                }
                            };
                        }
                        match fi {
                            0 => match AssetCache::new(&root) {
                                Ok(c) => go!(c),
                                Err(e) => Err(E { id: "<cache>".into(), class: ErrClass::Other(e.to_string()) }),
                            },
                            1 => go!(AssetCache::without_hot_reloading(FileSystem::new(&root).unwrap())),
                            _ => go!(LocalAssetCache::with_source(FileSystem::new(&root).unwrap())),
                        }
                    };
                    let got = run(false);
                    let ok = match (&got, &want) {
                        (Ok(V::Leaf { ext, len, hash }), Ok(w)) => {
                            let c = format!("ok-{case}-{w}");
                            ext == w && *len == c.len() && *hash == content_hash(c.as_bytes())
                        }
                        (Err(e), Err(w)) => {
                            e.id == id
                                && match (*w, &e.class) {
                                    ("conversion", ErrClass::Conversion) => true,
                                    ("io", ErrClass::Io(_)) => true,
                                    ("not-found", ErrClass::NotFound) => true,
                                    _ => false,
                                }
                        }
                        _ => false,
                    };
                    if !ok {
                        let sig = if got.is_ok() != want.is_ok() { "C03/wrong-outcome" } else if got.is_ok() { "C03/wrong-value" } else { "C03/wrong-error" };
                        rep.violation(
                            "real-filesystem",
                            &format!("{sig}:real-filesystem"),
                            json!({"front": fname, "got": format!("{got:?}"), "expected": format!("{want:?}")}),
                            scen.clone(),
                        );
                    }
                    // with a default value every failure except a refused one becomes the default
                    let gd = run(true);
                    let okd = match (&gd, &want) {
                        (Ok(V::Leaf { ext, .. }), Ok(w)) => ext == w,
                        (Ok(V::LeafDefault), Err(_)) => true,
                        _ => false,
                    };
                    if !okd {
                        rep.violation(
                            "real-filesystem",
                            "C03/wrong-outcome:real-filesystem:default",
                            json!({"front": fname, "got": format!("{gd:?}"), "expected": format!("{want:?} (default_value decides on failure)")}),
                            scen.clone(),
                        );
                    }
                    if let Err(w) = want {
                        rep.seen("real_fs_error_classes", w);
                    }
                }
                // repair: the first extension becomes a valid file, the same call then succeeds
                if want.is_err() {
                    let path = base.join(format!("c{case}.{}", exts2[0]));
                    let _ = std::fs::remove_file(&path);
                    let _ = std::fs::remove_dir(&path);
                    std::fs::write(&path, format!("ok-{case}-{}", exts2[0])).unwrap();
                    let c = AssetCache::without_hot_reloading(FileSystem::new(&root).unwrap());
                    let got = c.load::<Leaf<2, 0, true>>(&id).map(|h| h.read().v.clone()).map_err(|e| describe_error(&e));
                    if !matches!(&got, Ok(V::Leaf { ext, .. }) if ext == exts2[0]) {
                        rep.violation("real-filesystem", "C03/not-recovered-after-repair:real-filesystem", json!({"got": format!("{got:?}")}), scen.clone());
                    }
                }
                rep.nontrivial(mix(0xf5, case as u64));
                rep.count("real_filesystem_cases", 1);
            }
        }
    }
    let _ = std::fs::remove_dir_all(dir);
}

pub fn run(args: &Args) -> Report {
    let mut rep = Report::new(args);
    rep.rule = "exhaustive product: extension list (0..3 entries incl. \"\") x per-extension file state {absent, \
                unreadable with one of 6 io kinds, undecodable, valid} x default_value {none, Ok, Err} x FileContent \
                variant, front-ends rotated, each followed by 'failure caches nothing' and repair+retry; compound \
                chains of depth 1..6 failing at each level; every order of three repair edits from every broken \
                starting state; byte-exactness for empty/1B/4KiB+-1/large/non-UTF-8 contents through the harness \
                identity loader and the crate's Bytes/String/Parse loaders. Every case is distinct by construction \
                (hash of its description) and non-trivial (a real load is performed and compared with the model)"
        .into();
    let miri = cfg!(miri);
    let mut rng = Rng::new(args.seed).sub(3 + args.shard as u64 * 1000);

    // ---- A. exhaustive product (sharded)
    let sts = states();
    let mut case_no = 0usize;
    let mut run_cases = 0u64;
    for e in 0..4u8 {
        let n = exts(e).len();
        let combos = sts.len().pow(n as u32);
        for combo in 0..combos {
            let s: Vec<St> = (0..n).map(|i| sts[(combo / sts.len().pow(i as u32)) % sts.len()]).collect();
            for d in 0..3u8 {
                for mode in 0..3u8 {
                    case_no += 1;
                    if case_no % args.nshards != args.shard {
                        continue;
                    }
                    if miri && case_no % 37 != 0 {
                        continue;
                    }
                    let front = FRONTS[case_no % FRONTS.len()];
                    product_case(&mut rep, case_no, e, d, &s, mode, front);
                    run_cases += 1;
                }
            }
        }
    }
    rep.count("product_cases", run_cases);
    rep.extra.insert("product_space".into(), json!(case_no));
    rep.exhaustive = Some(!miri);

    // ---- B. compound chains
    chains(&mut rep, &mut rng, if miri { 6 } else { args.n(600, 20_000) });
    // ---- C. repair orders
    if !miri && args.shard == 0 {
        repair_orders(&mut rep);
    }
    // ---- D. byte exactness
    if args.shard == 0 {
        byte_exactness(&mut rep, &mut rng, if miri { 300 } else if args.thorough() { 8 << 20 } else { 1 << 20 });
    }

    // ---- E. real filesystem, entries that exist but cannot be read
    if !miri && args.shard == args.nshards - 1 {
        real_fs_errors(&mut rep);
        rep.floor_set("real_fs_error_classes", 3);
    }

    rep.floor_set("error_classes", if miri { 2 } else { 4 });
    rep.floor("product_cases", run_cases, if miri { 50 } else { 1000 });
    rep
}
