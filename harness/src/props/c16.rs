//! C16 — SharedBytes / SharedString are immutable shared buffers.

use crate::alloc_ledger as al;
use crate::rng::{fnv, mix, Rng};
use crate::{Args, Report};
use assets_manager::{SharedBytes, SharedString};
use serde::de::value::{BytesDeserializer, Error as DeError, StrDeserializer, StringDeserializer};
use serde::de::{Deserializer, Visitor};
use serde::Deserialize;
use serde_json::json;
use std::borrow::Cow;
use std::collections::hash_map::DefaultHasher;
use std::hash::{Hash, Hasher};
use std::sync::mpsc;

/// Deserializer that hands an owned byte buffer to the visitor (`visit_byte_buf`).
struct ByteBufDe(Vec<u8>);
impl<'de> Deserializer<'de> for ByteBufDe {
    type Error = DeError;
    fn deserialize_any<V: Visitor<'de>>(self, v: V) -> Result<V::Value, DeError> {
        v.visit_byte_buf(self.0)
    }
    serde::forward_to_deserialize_any! {
        bool i8 i16 i32 i64 i128 u8 u16 u32 u64 u128 f32 f64 char str string
        bytes byte_buf option unit unit_struct newtype_struct seq tuple
        tuple_struct map struct enum identifier ignored_any
    }
}

const CTORS: &[&str] = &[
    "from_slice",
    "from_vec_exact",
    "from_vec_excess",
    "from_vec_empty_cap",
    "from_box",
    "cow_borrowed",
    "cow_owned",
    "from_iter",
    "from_iter_no_hint",
    "from_iter_hint_too_small",
    "from_iter_hint_too_large",
    "from_iter_hint_zero",
    "from_iter_filtered",
    "from_ref",
    "de_str",
    "de_string",
    "de_bytes",
    "de_byte_buf",
    "from_ref_slice_into",
];

/// Builds a `SharedBytes` holding `data` through constructor `ctor`.
/// `None` when the constructor does not apply to this data.
fn build(ctor: &str, data: &[u8]) -> Option<SharedBytes> {
    Some(match ctor {
        "from_slice" => SharedBytes::from_slice(data),
        "from_ref_slice_into" => data.into(),
        "from_vec_exact" => {
            let mut v = Vec::with_capacity(data.len());
            v.extend_from_slice(data);
            SharedBytes::from_vec(v)
        }
        "from_vec_excess" => {
            let mut v = Vec::with_capacity(data.len() * 2 + 17);
            v.extend_from_slice(data);
            SharedBytes::from(v)
        }
        "from_vec_empty_cap" => {
            if !data.is_empty() {
                return None;
            }
            SharedBytes::from_vec(Vec::new())
        }
        "from_box" => SharedBytes::from(data.to_vec().into_boxed_slice()),
        "cow_borrowed" => SharedBytes::from(Cow::Borrowed(data)),
        "cow_owned" => SharedBytes::from(Cow::<[u8]>::Owned(data.to_vec())),
        "from_iter" => data.iter().copied().collect::<SharedBytes>(),
        // `size_hint` is advisory: the result is what the iterator yields, whatever it claims
        "from_iter_no_hint" => Hinted { it: data.iter().copied(), hint: (0, None) }.collect::<SharedBytes>(),
        "from_iter_hint_too_small" => {
            let n = data.len() / 2;
            Hinted { it: data.iter().copied(), hint: (n, Some(n)) }.collect::<SharedBytes>()
        }
        "from_iter_hint_too_large" => {
            let n = data.len() * 2 + 3;
            Hinted { it: data.iter().copied(), hint: (n, Some(n)) }.collect::<SharedBytes>()
        }
        "from_iter_hint_zero" => Hinted { it: data.iter().copied(), hint: (0, Some(0)) }.collect::<SharedBytes>(),
        "from_iter_filtered" => {
            // honest but inexact hint (0, Some(2n)): every second byte of a doubled sequence
            let doubled: Vec<u8> = data.iter().flat_map(|b| [*b, b.wrapping_add(1)]).collect();
            doubled.iter().copied().enumerate().filter(|(i, _)| i % 2 == 0).map(|(_, b)| b).collect::<SharedBytes>()
        }
        "from_ref" => {
            let a = SharedBytes::from_slice(data);
            SharedBytes::from(&a)
        }
        "de_str" => {
            let s = std::str::from_utf8(data).ok()?;
            SharedBytes::deserialize(StrDeserializer::<DeError>::new(s)).ok()?
        }
        "de_string" => {
            let s = std::str::from_utf8(data).ok()?.to_string();
            SharedBytes::deserialize(StringDeserializer::<DeError>::new(s)).ok()?
        }
        "de_bytes" => SharedBytes::deserialize(BytesDeserializer::<DeError>::new(data)).ok()?,
        "de_byte_buf" => SharedBytes::deserialize(ByteBufDe(data.to_vec())).ok()?,
        _ => unreachable!(),
    })
}

/// An iterator that yields what `it` yields and claims `hint`.
struct Hinted<I> {
    it: I,
    hint: (usize, Option<usize>),
}

impl<I: Iterator<Item = u8>> Iterator for Hinted<I> {
    type Item = u8;
    fn next(&mut self) -> Option<u8> {
        self.it.next()
    }
    fn size_hint(&self) -> (usize, Option<usize>) {
        self.hint
    }
}

fn h<T: Hash + ?Sized>(t: &T) -> u64 {
    let mut s = DefaultHasher::new();
    t.hash(&mut s);
    s.finish()
}

fn pattern(seed: u64, len: usize) -> Vec<u8> {
    let mut r = Rng::new(seed);
    r.bytes(len)
}

fn check_bytes(rep: &mut Report, ctor: &str, data: &[u8], sb: &SharedBytes, what: &str) {
    let ok = &**sb == data
        && sb.len() == data.len()
        && sb.as_ref() == data
        && *sb == *data
        && *sb == data
        && *sb == data.to_vec()
        && h(sb) == h(data)
        && std::borrow::Borrow::<[u8]>::borrow(sb) == data;
    if !ok {
        rep.violation(
            "bytes-content",
            "C16/bytes-content",
            json!({"ctor": ctor, "len": data.len(), "what": what,
                   "got_len": sb.len(), "got_hash": format!("{:016x}", fnv(sb)), "want_hash": format!("{:016x}", fnv(data))}),
            json!({"ctor": ctor, "len": data.len(), "data_hash": format!("{:016x}", fnv(data))}),
        );
    }
}

fn utf8_alphabet_strings(max_len: usize) -> Vec<Vec<u8>> {
    const A: [u8; 8] = [0x00, 0x41, 0x80, 0xBF, 0xC3, 0xE2, 0xF0, 0xFF];
    let mut out = vec![vec![]];
    let mut frontier = vec![vec![]];
    for _ in 0..max_len {
        let mut next = vec![];
        for p in &frontier {
            for b in A {
                let mut q: Vec<u8> = p.clone();
                q.push(b);
                next.push(q);
            }
        }
        out.extend(next.iter().cloned());
        frontier = next;
    }
    out
}

fn check_string_case(rep: &mut Report, bytes: &[u8]) {
    rep.eval();
    let std_ok = std::str::from_utf8(bytes);
    let got = SharedString::from_utf8(SharedBytes::from_slice(bytes));
    let de_bytes = SharedString::deserialize(BytesDeserializer::<DeError>::new(bytes));
    let de_buf = SharedString::deserialize(ByteBufDe(bytes.to_vec()));
    let scen = json!({"bytes": bytes});
    match std_ok {
        Ok(s) => {
            for (name, r) in [
                ("from_utf8", got.ok()),
                ("de_bytes", de_bytes.ok()),
                ("de_byte_buf", de_buf.ok()),
                ("from_str", Some(SharedString::from(s))),
                ("from_string", Some(SharedString::from(s.to_string()))),
                ("cow_b", Some(SharedString::from(Cow::Borrowed(s)))),
                ("cow_o", Some(SharedString::from(Cow::<str>::Owned(s.to_string())))),
                (
                    "de_str",
                    SharedString::deserialize(StrDeserializer::<DeError>::new(s)).ok(),
                ),
                (
                    "de_string",
                    SharedString::deserialize(StringDeserializer::<DeError>::new(s.to_string())).ok(),
                ),
            ] {
                match r {
                    None => rep.violation(
                        "string-rejects-valid",
                        "C16/string-rejects-valid",
                        json!({"path": name}),
                        scen.clone(),
                    ),
                    Some(ss) => {
                        let same = &*ss == s
                            && ss.as_str() == s
                            && ss == *s
                            && ss == s
                            && ss == s.to_string()
                            && ss.to_string() == s
                            && h(&ss) == h(s)
                            && AsRef::<[u8]>::as_ref(&ss) == bytes
                            && std::str::from_utf8(AsRef::<[u8]>::as_ref(&ss)).is_ok()
                            && format!("{ss}") == s
                            && &*ss.clone().into_bytes() == bytes;
                        if !same {
                            rep.violation(
                                "string-content",
                                "C16/string-content",
                                json!({"path": name, "got": ss.as_str()}),
                                scen.clone(),
                            );
                        }
                    }
                }
            }
            rep.count("utf8_valid_cases", 1);
        }
        Err(_) => {
            for (name, accepted) in [
                ("from_utf8", got.is_ok()),
                ("de_bytes", de_bytes.is_ok()),
                ("de_byte_buf", de_buf.is_ok()),
            ] {
                if accepted {
                    rep.violation(
                        "string-accepts-invalid",
                        "C16/string-accepts-invalid",
                        json!({"path": name}),
                        scen.clone(),
                    );
                }
            }
            rep.count("utf8_invalid_cases", 1);
        }
    }
    rep.nontrivial(mix(7, fnv(bytes)));
}

pub fn run(args: &Args) -> Report {
    let mut rep = Report::new(args);
    #[cfg(not(miri))]
    let threads_at_start = crate::procfs::tasks().len();
    #[cfg(miri)]
    let threads_at_start = 1usize;
    rep.rule = "every constructor x length class x content; clone/drop storms across threads with content \
                verified at every hop; allocator-ledger balance and layout match on free (when built with the \
                accounting allocator); UTF-8 acceptance compared with std::str::from_utf8 over all byte strings \
                up to a length bound on an 8-byte alphabet plus random/mutated longer ones; comparison, ordering \
                and hashing compared with those of the slice; distinct = distinct (constructor, length, content) \
                and distinct byte strings"
        .into();
    let miri = cfg!(miri);
    let mut rng = Rng::new(args.seed).sub(16 + args.shard as u64 * 1000);
    let before = al::snapshot();

    // ---- 1. constructors x lengths
    let lengths: Vec<usize> = if miri {
        vec![0, 1, 7, 8, 31, 33, 256]
    } else if args.thorough() {
        vec![0, 1, 2, 7, 8, 9, 15, 16, 31, 32, 33, 63, 64, 65, 255, 4095, 4096, 4097, 65_536, 1 << 20]
    } else {
        vec![0, 1, 7, 8, 31, 32, 33, 4095, 4096, 1 << 20]
    };
    let reps = if miri { 1 } else { args.n(3, 12) };
    for &len in &lengths {
        for round in 0..reps {
            for ctor in CTORS {
                let text_only = ctor.starts_with("de_str");
                let data: Vec<u8> = if text_only {
                    (0..len).map(|i| b'a' + ((i + round) % 26) as u8).collect()
                } else {
                    pattern(rng.next(), len)
                };
                let Some(sb) = build(ctor, &data) else {
                    continue;
                };
                rep.eval();
                rep.seen("ctors", ctor);
                rep.seen("lengths", &len.to_string());
                check_bytes(&mut rep, ctor, &data, &sb, "fresh");
                // clones alias the same content
                let c1 = sb.clone();
                let c2 = SharedBytes::from(&c1);
                if c1.as_ptr() != sb.as_ptr() || c2.as_ptr() != sb.as_ptr() {
                    rep.violation(
                        "clone-aliasing",
                        "C16/clone-not-aliased",
                        json!({"ctor": ctor, "len": len}),
                        json!({"ctor": ctor, "len": len}),
                    );
                }
                // random drop order
                let mut v = vec![sb, c1, c2];
                rng.shuffle(&mut v);
                while let Some(x) = v.pop() {
                    drop(x);
                    for y in &v {
                        check_bytes(&mut rep, ctor, &data, y, "after dropping a sibling");
                    }
                }
                rep.nontrivial(mix(fnv(ctor.as_bytes()), mix(len as u64, fnv(&data))));
            }
        }
    }
    rep.sample(json!({"kind": "constructor", "ctors": CTORS, "lengths": lengths}));

    // ---- 2. comparisons / ordering / hashing like slices
    let npairs = if miri { 40 } else { args.n(3_000, 60_000) };
    for _ in 0..npairs {
        rep.eval();
        let la = rng.below(6);
        let lb = rng.below(6);
        let a: Vec<u8> = (0..la).map(|_| *rng.pick(&[0u8, 1, 0x7f, 0x80, 0xff])).collect();
        let b: Vec<u8> = if rng.chance(1, 4) {
            a.clone()
        } else {
            (0..lb).map(|_| *rng.pick(&[0u8, 1, 0x7f, 0x80, 0xff])).collect()
        };
        let (sa, sb) = (SharedBytes::from_slice(&a), SharedBytes::from(b.clone()));
        let ok = sa.cmp(&sb) == a.cmp(&b)
            && sa.partial_cmp(&sb) == a.partial_cmp(&b)
            && sa.partial_cmp(&b[..]) == a[..].partial_cmp(&b[..])
            && (sa == sb) == (a == b)
            && (h(&sa) == h(&sb)) == (h(&a[..]) == h(&b[..]))
            && h(&sa) == h(&a[..]);
        if !ok {
            rep.violation(
                "bytes-compare",
                "C16/bytes-compare",
                json!({"a": a, "b": b}),
                json!({"a": a, "b": b}),
            );
        }
        // strings
        let ta: String = a.iter().map(|x| (b'a' + x % 5) as char).collect();
        let tb: String = b.iter().map(|x| (b'a' + x % 5) as char).collect();
        let (xa, xb) = (SharedString::from(ta.as_str()), SharedString::from(tb.clone()));
        let ok = xa.cmp(&xb) == ta.cmp(&tb)
            && xa.partial_cmp(&xb) == ta.partial_cmp(&tb)
            && xa.partial_cmp(tb.as_str()) == ta.as_str().partial_cmp(tb.as_str())
            && (xa == xb) == (ta == tb)
            && h(&xa) == h(ta.as_str());
        if !ok {
            rep.violation(
                "string-compare",
                "C16/string-compare",
                json!({"a": ta, "b": tb}),
                json!({"a": ta, "b": tb}),
            );
        }
        rep.nontrivial(mix(fnv(&a), fnv(&b).rotate_left(7)));
    }
    // lookups through Borrow
    {
        let mut m = std::collections::HashMap::new();
        let mut bm = std::collections::BTreeMap::new();
        for i in 0..50u8 {
            let d = vec![i; (i % 7) as usize + 1];
            m.insert(SharedBytes::from_slice(&d), i);
            bm.insert(SharedString::from(format!("k{i:03}")), i);
        }
        for i in 0..50u8 {
            rep.eval();
            let d = vec![i; (i % 7) as usize + 1];
            if m.get(&d[..]) != Some(&i) || bm.get(format!("k{i:03}").as_str()) != Some(&i) {
                rep.violation("borrow-lookup", "C16/borrow-lookup", json!({"i": i}), json!({"i": i}));
            }
        }
    }

    // ---- 3. UTF-8 acceptance
    let maxlen = if miri { 2 } else if args.thorough() { 5 } else { 4 };
    let all = utf8_alphabet_strings(maxlen);
    rep.count("utf8_exhaustive_strings", all.len() as u64);
    for b in &all {
        check_string_case(&mut rep, b);
    }
    let nrand = if miri { 30 } else { args.n(5_000, 200_000) };
    let seeds: [&str; 6] = ["héllo wörld", "日本語テキスト", "🦀🦀", "plain ascii", "\u{7ff}\u{800}\u{ffff}\u{10000}", ""];
    for i in 0..nrand {
        let mut b: Vec<u8> = seeds[i % seeds.len()].as_bytes().to_vec();
        match rng.below(4) {
            0 => {}
            1 if !b.is_empty() => {
                let n = rng.below(b.len());
                b.truncate(n); // truncated multi-byte
            }
            2 if !b.is_empty() => {
                let n = rng.below(b.len());
                b[n] = rng.next() as u8;
            }
            _ => {
                let n = rng.below(12);
                b = rng.bytes(n);
            }
        }
        check_string_case(&mut rep, &b);
    }
    rep.sample(json!({"kind": "utf8", "exhaustive_up_to_len": maxlen, "alphabet": [0, 0x41, 0x80, 0xBF, 0xC3, 0xE2, 0xF0, 0xFF],
                      "example_invalid": [0xE2u8, 0x82], "example_valid": "é"}));

    // ---- 4. clone / drop storms across threads
    let storms = if miri { 2 } else { args.n(20, 400) };
    let mut hops_total = 0u64;
    for s in 0..storms {
        rep.eval();
        let nthreads = if miri { 3 } else { rng.range(2, 16) };
        let nbufs = if miri { 3 } else { rng.range(1, 12) };
        let budget = if miri { 8 } else { rng.range(20, 300) };
        // buffers are self-describing: byte i == (seed + i) as u8, first byte = seed
        let mk = |seed: u8, len: usize| -> Vec<u8> { (0..len).map(|i| seed.wrapping_add(i as u8)).collect() };
        let verify = |b: &SharedBytes| -> bool {
            b.is_empty() || b.iter().enumerate().all(|(i, x)| *x == b[0].wrapping_add(i as u8))
        };
        let (txs, rxs): (Vec<_>, Vec<_>) = (0..nthreads).map(|_| mpsc::channel::<SharedBytes>()).unzip();
        for i in 0..nbufs {
            let len = *rng.pick(&[1usize, 5, 64, 1000]);
            let data = mk(rng.next() as u8, len);
            let sb = if i % 2 == 0 {
                SharedBytes::from_slice(&data)
            } else {
                let mut v = Vec::with_capacity(len + 9);
                v.extend_from_slice(&data);
                SharedBytes::from_vec(v)
            };
            let _ = txs[i % nthreads].send(sb);
        }
        let bad = std::sync::atomic::AtomicU64::new(0);
        let hops = std::sync::atomic::AtomicU64::new(0);
        std::thread::scope(|sc| {
            for (t, rx) in rxs.into_iter().enumerate() {
                let txs = txs.clone();
                let mut r = rng.sub((s * 100 + t) as u64);
                let bad = &bad;
                let hops = &hops;
                sc.spawn(move || {
                    let mut held: Vec<SharedBytes> = vec![];
                    let mut left = budget;
                    loop {
                        while let Ok(b) = rx.try_recv() {
                            if !verify(&b) {
                                bad.fetch_add(1, std::sync::atomic::Ordering::SeqCst);
                            }
                            hops.fetch_add(1, std::sync::atomic::Ordering::SeqCst);
                            held.push(b);
                        }
                        if left == 0 {
                            break;
                        }
                        left -= 1;
                        if held.is_empty() {
                            std::thread::yield_now();
                            continue;
                        }
                        let i = r.below(held.len());
                        match r.below(4) {
                            0 => {
                                let c = held[i].clone();
                                held.push(c);
                            }
                            1 => {
                                let c = held[i].clone();
                                let _ = txs[r.below(txs.len())].send(c);
                            }
                            2 => {
                                let b = held.swap_remove(i);
                                let _ = txs[r.below(txs.len())].send(b);
                            }
                            _ => {
                                let b = held.swap_remove(i);
                                if !verify(&b) {
                                    bad.fetch_add(1, std::sync::atomic::Ordering::SeqCst);
                                }
                                drop(b);
                            }
                        }
                    }
                    // the receiver (with whatever is still queued) and `held` drop here
                });
            }
            drop(txs);
        });
        let b = bad.into_inner();
        hops_total += hops.into_inner();
        if b > 0 {
            rep.violation(
                "storm-content",
                "C16/storm-content",
                json!({"corrupted_observations": b}),
                json!({"storm": s, "threads": nthreads, "bufs": nbufs}),
            );
        }
        rep.nontrivial(mix(0x5703, mix(nthreads as u64, mix(nbufs as u64, budget as u64))));
        if s == 0 {
            rep.sample(json!({"kind": "storm", "threads": nthreads, "buffers": nbufs, "steps_per_thread": budget}));
        }
    }
    rep.count("storm_hand_offs", hops_total);

    // ---- 4a. read, then drop, with no synchronisation between the threads afterwards: the
    // thread that frees the buffer must be ordered after every other thread's last use of it
    // (decided by the data-race detectors of the Miri / TSan builds; natively: content only)
    {
        let rounds = if miri { 6 } else { args.n(300, 3_000) };
        let mut wrong = 0u64;
        for round in 0..rounds {
            let len = *rng.pick(&[1usize, 24, 600]);
            let data = pattern(rng.next(), len);
            let a = if round % 2 == 0 { SharedBytes::from_slice(&data) } else { SharedBytes::from_vec(data.clone()) };
            let clones: Vec<SharedBytes> = (0..if miri { 2 } else { 3 }).map(|_| a.clone()).collect();
            drop(a);
            let go = std::sync::atomic::AtomicBool::new(false);
            let bad = std::sync::atomic::AtomicU64::new(0);
            std::thread::scope(|sc| {
                for (k, x) in clones.into_iter().enumerate() {
                    let (go, bad, data) = (&go, &bad, &data);
                    sc.spawn(move || {
                        while !go.load(std::sync::atomic::Ordering::Relaxed) {
                            crate::util::pause();
                        }
                        for _ in 0..k {
                            std::thread::yield_now();
                        }
                        if &*x != &data[..] {
                            bad.fetch_add(1, std::sync::atomic::Ordering::Relaxed);
                        }
                        drop(x);
                    });
                }
                go.store(true, std::sync::atomic::Ordering::Relaxed);
            });
            wrong += bad.load(std::sync::atomic::Ordering::Relaxed);
            rep.eval();
        }
        rep.count("unsynchronised_last_drop_rounds", rounds as u64);
        if wrong > 0 {
            rep.violation("storm-content", "C16/storm-content", json!({"wrong_reads_before_drop": wrong}), json!({"kind": "read then drop on 2-3 threads"}));
        }
    }

    // ---- 4b. two clones dropped at the same moment from two threads: the buffer
    // must be released exactly once (allocator ledger: neither leaked nor freed twice)
    if al::ENABLED {
        let lockstep = |rounds: usize, rng: &mut Rng| {
            for round in 0..rounds {
                let len = *rng.pick(&[0usize, 1, 64, 5000]);
                let data = pattern(rng.next(), len);
                let a = if round % 2 == 0 {
                    SharedBytes::from_slice(&data)
                } else {
                    let mut v = Vec::with_capacity(len + 3);
                    v.extend_from_slice(&data);
                    SharedBytes::from_vec(v)
                };
                let b = a.clone();
                let c = a.clone();
                let go = std::sync::atomic::AtomicBool::new(false);
                std::thread::scope(|sc| {
                    for x in [a, b, c] {
                        let go = &go;
                        sc.spawn(move || {
                            while !go.load(std::sync::atomic::Ordering::SeqCst) {
                                crate::util::pause();
                            }
                            drop(x);
                        });
                    }
                    go.store(true, std::sync::atomic::Ordering::SeqCst);
                });
            }
        };
        // warm up whatever the runtime allocates lazily, then bracket; the threads of earlier
        // sections and of the bracket itself must have gone completely before a snapshot
        lockstep(20, &mut rng);
        let settled0 = crate::util::settle_threads(threads_at_start, 20_000);
        let b0 = al::snapshot();
        let rounds = args.n(3_000, 40_000);
        lockstep(rounds, &mut rng);
        let settled1 = crate::util::settle_threads(threads_at_start, 20_000);
        let b1 = al::snapshot();
        rep.eval();
        rep.count("lockstep_concurrent_drop_rounds", rounds as u64);
        if !(settled0 && settled1) {
            rep.note("allocator bracket skipped: helper threads did not go away within 20 s");
        } else if b1.blocks != b0.blocks || b1.bytes != b0.bytes || b1.mismatches != b0.mismatches {
            rep.violation(
                "concurrent-drop-release",
                "C16/not-released-exactly-once-under-concurrent-drops",
                json!({"blocks_delta": b1.blocks - b0.blocks, "bytes_delta": b1.bytes - b0.bytes,
                       "layout_mismatches": b1.mismatches - b0.mismatches, "rounds": rounds}),
                json!({"kind": "three clones dropped simultaneously by three threads", "rounds": rounds}),
            );
        }
        rep.nontrivial(mix(0x10c5, rounds as u64));
    }

    // ---- 5. allocator ledger
    let after = al::snapshot();
    rep.extra.insert("alloc_ledger_enabled".into(), json!(al::ENABLED));
    if al::ENABLED {
        rep.count("allocations_observed", after.total - before.total);
        if after.mismatches != before.mismatches {
            rep.violation(
                "layout-mismatch",
                "C16/dealloc-layout-mismatch",
                json!({"mismatches": after.mismatches - before.mismatches, "first": al::mismatch_log()}),
                json!({}),
            );
        }
        // bracketed region: build + clone + drop, nothing may stay allocated
        let b0 = al::snapshot();
        for &len in &[0usize, 1, 8, 33, 4096] {
            for ctor in CTORS {
                let data = vec![b'x'; len];
                if let Some(sb) = build(ctor, &data) {
                    let c = sb.clone();
                    drop(sb);
                    let s = SharedString::from_utf8(c).unwrap();
                    drop(s);
                }
            }
        }
        let b1 = al::snapshot();
        rep.eval();
        if b1.blocks != b0.blocks || b1.bytes != b0.bytes {
            rep.violation(
                "leak",
                "C16/leak",
                json!({"blocks_delta": b1.blocks - b0.blocks, "bytes_delta": b1.bytes - b0.bytes}),
                json!({}),
            );
        }
    }

    rep.floor_set("ctors", CTORS.len() as u64);
    rep.floor_set("lengths", lengths.len() as u64);
    rep.floor("utf8_invalid_cases", rep.get("utf8_invalid_cases"), 10);
    rep.floor("utf8_valid_cases", rep.get("utf8_valid_cases"), 10);
    rep.floor("storm_hand_offs", hops_total, if miri { 3 } else { 100 });
    rep
}
