//! One module per property.

pub mod c01;
pub mod c02;
pub mod c03;
pub mod c04;
pub mod c05;
pub mod c07;
pub mod c08;
pub mod c09;
pub mod c10;
pub mod c11;
pub mod c12;
pub mod c13;
pub mod c14;
pub mod c15;
pub mod c16;
pub mod c17;
pub mod c18;

use crate::{Args, Report};

pub fn run(args: &Args) -> Report {
    match args.prop.as_str() {
        "C01" => c01::run(args),
        "C02" => c02::run(args),
        "C03" => c03::run(args),
        "C04" => c04::run(args),
        "C05" => c05::run(args),
        "C06" => c05::run_c06(args),
        "C07" => c07::run(args),
        "C08" => c08::run(args),
        "C09" => c09::run(args),
        "C10" => c10::run(args),
        "C11" => c11::run(args),
        "C12" => c12::run(args),
        "C13" => c13::run(args),
        "C14" => c14::run(args),
        "C15" => c15::run(args),
        "C16" => c16::run(args),
        "C17" => c17::run(args),
        "C18" => c18::run(args),
        other => {
            eprintln!("vh: unknown property {other}");
            std::process::exit(64)
        }
    }
}
