//! C05 — hot-reloading converges, transitively.
//! C06 — reloads are precise and reported exactly once (same histories plus
//! never-notified edits and noise; see `run_c06`).

use crate::assets::*;
use crate::mem::{Hot, Mem};
use crate::model::Key;
use crate::reload::{CacheKind, Judge, Step, World, WorldCfg};
use crate::rng::{fnv_str, mix, Rng};
use crate::{Args, Report};
use serde_json::json;
use std::collections::BTreeSet;

pub struct Gen {
    pub nodes: Vec<String>,
    pub leaves: Vec<String>,
    pub version: u64,
}

impl Gen {
    pub fn new(n_nodes: usize, n_leaves: usize) -> Gen {
        Gen {
            nodes: (0..n_nodes).map(|i| format!("g.x{i}")).collect(),
            leaves: (0..n_leaves).map(|i| format!("l.y{i}")).collect(),
            version: 0,
        }
    }

    pub fn leaf_content(&mut self, id: &str) -> String {
        self.version += 1;
        format!("{id}#v{}", self.version)
    }

    /// Random recipe for node `i`: references only nodes with a larger index
    /// (acyclic) and leaves.  `cached_ok` lists keys that may be used with
    /// `cached` (they are present in the cache).
    pub fn recipe(&self, r: &mut Rng, i: usize, cached_ok: &BTreeSet<Key>, rich: bool) -> Vec<Op> {
        let later: Vec<String> = self.nodes[i + 1..].to_vec();
        let nops = r.range(1, 4);
        let mut ops = vec![];
        for _ in 0..nops {
            let leaf = r.pick(&self.leaves).clone();
            let want_node = !later.is_empty() && r.chance(3, 5);
            if want_node {
                let id = r.pick(&later).clone();
                let ty = Ty::Node(0);
                ops.push(match r.below(if rich { 6 } else { 3 }) {
                    0 | 1 => Op::Load { ty, id },
                    2 => Op::Try { ty, id },
                    3 => {
                        if cached_ok.contains(&(ty, id.clone())) {
                            Op::Cached { ty, id }
                        } else {
                            Op::Load { ty, id }
                        }
                    }
                    4 => Op::Owned { ty, id },
                    // unrecorded reads: not subject to convergence unless the asset
                    // reloads for another reason (cache-presence observations such as
                    // `contains` are deliberately not generated: presence is not a
                    // dependency)
                    _ => Op::NoRec(vec![Op::File { id: leaf, ext: "a".into() }]),
                });
            } else {
                let ty = if r.chance(1, 5) { LEAF_M } else { LEAF_A };
                ops.push(match r.below(if rich { 9 } else { 3 }) {
                    0 | 1 => Op::Load { ty, id: leaf },
                    2 => Op::Try { ty, id: leaf },
                    3 => Op::Owned { ty: LEAF_A, id: leaf },
                    4 => Op::File { id: leaf, ext: "a".into() },
                    5 => Op::Load { ty: Ty::Dir(Elem::LeafA), id: "l".into() },
                    6 => Op::Iter { ty: Ty::Dir(Elem::LeafA), id: "l".into() },
                    7 => Op::ReadDir { id: "l".into() },
                    _ => {
                        if cached_ok.contains(&(LEAF_A, leaf.clone())) {
                            Op::Cached { ty: LEAF_A, id: leaf }
                        } else {
                            Op::Load { ty: LEAF_A, id: leaf }
                        }
                    }
                });
            }
        }
        ops
    }
}

fn cached_keys(w: &World, c: usize) -> BTreeSet<Key> {
    w.model.caches[c].entries.keys().cloned().collect()
}

pub struct HistCfg {
    pub n_nodes: usize,
    pub n_leaves: usize,
    pub rounds: usize,
    pub static_mode: bool,
    pub rich: bool,
    /// C06 extras: edits never notified, notify-without-edit
    pub silent_edits: bool,
    pub content_mode: u8,
}

/// One random history; returns (hash of the history, passes with >= 2 reloads, features seen).
pub fn history(rep: &mut Report, r: &mut Rng, j: &Judge, cfg: &HistCfg, tag: serde_json::Value) -> (u64, u64) {
    let mut g = Gen::new(cfg.n_nodes, cfg.n_leaves);
    let mut w = World::new(&WorldCfg {
        caches: vec![CacheKind::Hot],
        static_mode: cfg.static_mode,
        content_mode: cfg.content_mode,
    });
    w.tag = tag;
    // ---- initial source
    for l in g.leaves.clone() {
        let c = g.leaf_content(&l);
        w.seed_file(0, &l, "a", &c);
        if r.chance(1, 3) {
            let x = *r.pick(&["m1", "", "m3"]);
            let c = g.leaf_content(&l);
            w.seed_file(0, &l, x, &c);
        }
    }
    // recipes bottom-up so that `cached` can only name things loaded earlier
    let n = g.nodes.len();
    let mut recipes: Vec<Vec<Op>> = vec![vec![]; n];
    for i in (0..n).rev() {
        // at generation time nothing is cached yet: `cached` edges are added by rewiring later
        recipes[i] = g.recipe(r, i, &BTreeSet::new(), cfg.rich);
        w.seed_file(0, &g.nodes[i], "n0", &render_recipe(&recipes[i]));
    }
    // ---- initial loads: a random subset of nodes top-down, plus some leaves directly
    let mut order: Vec<usize> = (0..n).collect();
    r.shuffle(&mut order);
    let roots = r.range(1, n.max(1));
    for &i in order.iter().take(roots) {
        w.apply(&Step::Load { c: 0, ty: Ty::Node(0), id: g.nodes[i].clone() }, rep, j);
    }
    if r.chance(1, 2) {
        let l = r.pick(&g.leaves).clone();
        w.apply(&Step::Load { c: 0, ty: LEAF_A, id: l }, rep, j);
    }
    if r.chance(1, 3) {
        w.apply(&Step::Load { c: 0, ty: Ty::Dir(Elem::LeafA), id: "l".into() }, rep, j);
    }
    if r.chance(1, 4) {
        w.apply(&Step::Load { c: 0, ty: Ty::ArcNode, id: g.nodes[n - 1].clone() }, rep, j);
    }

    // ---- rounds of edits + notifications + one pass
    let mut multi = 0u64;
    let mut broken: Vec<(String, String)> = vec![];
    for _round in 0..cfg.rounds {
        let nedits = r.range(1, 4);
        let mut to_notify: Vec<(bool, String, String)> = vec![];
        for _ in 0..nedits {
            match r.below(if cfg.silent_edits { 12 } else { 10 }) {
                0..=2 => {
                    // value edit of a leaf file
                    let l = r.pick(&g.leaves).clone();
                    let c = g.leaf_content(&l);
                    w.apply(&Step::Write { c: 0, id: l.clone(), ext: "a".into(), content: c }, rep, j);
                    to_notify.push((false, l, "a".into()));
                    rep.seen("edit_kinds", "value");
                }
                3 => {
                    // rewiring
                    let i = r.below(n);
                    let ck = cached_keys(&w, 0);
                    let rec = g.recipe(r, i, &ck, cfg.rich);
                    w.apply(&Step::Write { c: 0, id: g.nodes[i].clone(), ext: "n0".into(), content: render_recipe(&rec) }, rep, j);
                    to_notify.push((false, g.nodes[i].clone(), "n0".into()));
                    rep.seen("edit_kinds", "rewire");
                }
                4 => {
                    // break
                    let l = r.pick(&g.leaves).clone();
                    if r.chance(1, 2) {
                        w.apply(&Step::Write { c: 0, id: l.clone(), ext: "a".into(), content: "!broken".into() }, rep, j);
                        to_notify.push((false, l.clone(), "a".into()));
                    } else {
                        w.apply(&Step::Delete { c: 0, id: l.clone(), ext: "a".into() }, rep, j);
                        to_notify.push((false, l.clone(), "a".into()));
                        to_notify.push((true, "l".into(), String::new()));
                    }
                    broken.push((l, "a".into()));
                    rep.seen("edit_kinds", "break");
                }
                5 => {
                    // repair something broken earlier
                    if let Some((l, x)) = broken.pop() {
                        let c = g.leaf_content(&l);
                        w.apply(&Step::Write { c: 0, id: l.clone(), ext: x.clone(), content: c }, rep, j);
                        to_notify.push((false, l, x));
                        to_notify.push((true, "l".into(), String::new()));
                        rep.seen("edit_kinds", "repair");
                    }
                }
                6 => {
                    // create a new file in the watched directory
                    let l = format!("l.new{}", r.below(4));
                    let c = g.leaf_content(&l);
                    w.apply(&Step::Write { c: 0, id: l.clone(), ext: "a".into(), content: c }, rep, j);
                    to_notify.push((false, l, "a".into()));
                    to_notify.push((true, "l".into(), String::new()));
                    rep.seen("edit_kinds", "create");
                }
                7 => {
                    // break a recipe, or make it fail
                    let i = r.below(n);
                    let text = if r.chance(1, 2) { "this is not a recipe {".to_string() } else { "fail".to_string() };
                    w.apply(&Step::Write { c: 0, id: g.nodes[i].clone(), ext: "n0".into(), content: text }, rep, j);
                    to_notify.push((false, g.nodes[i].clone(), "n0".into()));
                    rep.seen("edit_kinds", "break-recipe");
                }
                8 => {
                    // noise: unknown / unrelated entries
                    to_notify.push((false, "zz.unknown".into(), "a".into()));
                    to_notify.push((true, "nowhere".into(), String::new()));
                    to_notify.push((false, r.pick(&g.leaves).clone(), "zzz".into()));
                    rep.seen("edit_kinds", "noise");
                }
                9 => {
                    // an alternative extension of a multi-extension leaf
                    let l = r.pick(&g.leaves).clone();
                    let x = *r.pick(&["m1", "", "m3"]);
                    let c = g.leaf_content(&l);
                    w.apply(&Step::Write { c: 0, id: l.clone(), ext: x.into(), content: c }, rep, j);
                    to_notify.push((false, l, x.into()));
                    rep.seen("edit_kinds", "other-ext");
                }
                10 => {
                    // (C06) edit that is never notified
                    let l = r.pick(&g.leaves).clone();
                    let c = g.leaf_content(&l);
                    w.apply(&Step::Write { c: 0, id: l, ext: "a".into(), content: c }, rep, j);
                    rep.seen("edit_kinds", "silent-edit");
                }
                _ => {
                    // (C06) notification without any edit
                    let l = r.pick(&g.leaves).clone();
                    to_notify.push((false, l, "a".into()));
                    rep.seen("edit_kinds", "notify-without-edit");
                }
            }
        }
        // duplicates
        if !to_notify.is_empty() && r.chance(1, 3) {
            let d = r.pick(&to_notify).clone();
            to_notify.push(d);
            rep.seen("edit_kinds", "duplicate-notification");
        }
        r.shuffle(&mut to_notify);
        let batched = r.chance(1, 2);
        if batched {
            rep.seen("edit_kinds", "batched");
        }
        let st = w.apply(&Step::Notify { c: 0, entries: to_notify, batched }, rep, j);
        let st2 = w.apply(&Step::Pass { c: 0 }, rep, j);
        for s in [st, st2] {
            if s.reloaded >= 2 {
                multi += 1;
            }
            if s.reloaded >= 1 {
                rep.count("passes_with_reload", 1);
            }
            rep.count("assets_reloaded_model", s.reloaded as u64);
            rep.count("reloads_failed_model", s.failed as u64);
            if s.order_sensitive > 0 {
                rep.count("passes_order_sensitive", 1);
            }
        }
        if w.aborted.is_some() {
            break;
        }
    }
    // diamond detection: some asset reachable from one file by two paths
    if let Some(_) = &w.last_pass {
        // counted through the graph: a node with two distinct dependents that share a dependent
        let gr = &w.model.caches[0].graph;
        let mut diamond = false;
        for (k, _) in gr.iter() {
            let dependents: Vec<&Key> = gr
                .iter()
                .filter(|(_, ds)| ds.contains(&crate::model::Dep::Asset(k.0, k.1.clone())))
                .map(|(kk, _)| kk)
                .collect();
            if dependents.len() >= 2 {
                for top in gr.iter() {
                    let n = dependents
                        .iter()
                        .filter(|d| top.1.contains(&crate::model::Dep::Asset(d.0, d.1.clone())))
                        .count();
                    if n >= 2 {
                        diamond = true;
                    }
                }
            }
        }
        if diamond {
            rep.count("histories_with_diamond", 1);
        }
    }
    rep.count("passes", w.passes);
    let h = fnv_str(&w.steps_log.join("\n"));
    if rep.samples.len() < 2 {
        rep.sample(json!({"kind": if cfg.static_mode { "enhanced-mode history" } else { "hot_reload() history" },
            "steps": w.steps_log.iter().take(40).collect::<Vec<_>>()}));
    }
    (h, multi)
}

/// Hand-written shapes that every run must contain (floors).
fn fixed_shapes(rep: &mut Report, j: &Judge, static_mode: bool) {
    // diamond: top -> {left, right} -> leaf ; chain of 4
    let mut w = World::new(&WorldCfg { caches: vec![CacheKind::Hot], static_mode, content_mode: 3 });
    w.seed_file(0, "l.y0", "a", "base-0");
    w.seed_file(0, "d.left", "n0", "load L10t l.y0");
    w.seed_file(0, "d.right", "n0", "load L10t l.y0 file l.y0 a");
    w.seed_file(0, "d.top", "n0", "load N0 d.left load N0 d.right");
    w.seed_file(0, "c.c3", "n0", "load L10t l.y0");
    w.seed_file(0, "c.c2", "n0", "load N0 c.c3");
    w.seed_file(0, "c.c1", "n0", "owned N0 c.c2");
    w.seed_file(0, "c.c0", "n0", "load N0 c.c1 load D:a l");
    for id in ["d.top", "c.c0"] {
        w.apply(&Step::Load { c: 0, ty: Ty::Node(0), id: id.into() }, rep, j);
    }
    for v in 1..4 {
        w.apply(&Step::Write { c: 0, id: "l.y0".into(), ext: "a".into(), content: format!("base-{v}") }, rep, j);
        w.apply(&Step::Notify { c: 0, entries: vec![(false, "l.y0".into(), "a".into())], batched: v % 2 == 0 }, rep, j);
        let s = w.apply(&Step::Pass { c: 0 }, rep, j);
        let _ = s;
    }
    // break + repair
    w.apply(&Step::Write { c: 0, id: "l.y0".into(), ext: "a".into(), content: "!broken".into() }, rep, j);
    w.apply(&Step::Notify { c: 0, entries: vec![(false, "l.y0".into(), "a".into())], batched: false }, rep, j);
    w.apply(&Step::Pass { c: 0 }, rep, j);
    w.apply(&Step::Write { c: 0, id: "l.y0".into(), ext: "a".into(), content: "repaired".into() }, rep, j);
    w.apply(&Step::Notify { c: 0, entries: vec![(false, "l.y0".into(), "a".into())], batched: false }, rep, j);
    w.apply(&Step::Pass { c: 0 }, rep, j);
    // directory gains an entry
    w.apply(&Step::Write { c: 0, id: "l.extra".into(), ext: "a".into(), content: "extra".into() }, rep, j);
    w.apply(&Step::Notify { c: 0, entries: vec![(false, "l.extra".into(), "a".into()), (true, "l".into(), String::new())], batched: true }, rep, j);
    w.apply(&Step::Pass { c: 0 }, rep, j);
    // rewiring to an existing, untouched target
    w.apply(&Step::Write { c: 0, id: "d.left".into(), ext: "n0".into(), content: "load L10t l.extra".into() }, rep, j);
    w.apply(&Step::Notify { c: 0, entries: vec![(false, "d.left".into(), "n0".into())], batched: false }, rep, j);
    w.apply(&Step::Pass { c: 0 }, rep, j);
    // the new dependency is live, the old one is gone
    w.apply(&Step::Write { c: 0, id: "l.extra".into(), ext: "a".into(), content: "extra-2".into() }, rep, j);
    w.apply(&Step::Notify { c: 0, entries: vec![(false, "l.extra".into(), "a".into())], batched: false }, rep, j);
    w.apply(&Step::Pass { c: 0 }, rep, j);
    // an entry that is known to the graph but that nobody reads any more: its notification
    // concerns nobody, now and later
    w.seed_file(0, "o.t1", "a", "t1-0");
    w.seed_file(0, "o.t2", "a", "t2-0");
    w.seed_file(0, "o.p", "n0", "file o.t1 a");
    w.apply(&Step::Load { c: 0, ty: Ty::Node(0), id: "o.p".into() }, rep, j);
    w.apply(&Step::Write { c: 0, id: "o.p".into(), ext: "n0".into(), content: "file o.t2 a".into() }, rep, j);
    w.apply(&Step::Notify { c: 0, entries: vec![(false, "o.p".into(), "n0".into())], batched: false }, rep, j);
    w.apply(&Step::Pass { c: 0 }, rep, j);
    w.apply(&Step::Write { c: 0, id: "o.t1".into(), ext: "a".into(), content: "t1-1".into() }, rep, j);
    w.apply(&Step::Notify { c: 0, entries: vec![(false, "o.t1".into(), "a".into())], batched: false }, rep, j);
    w.apply(&Step::Pass { c: 0 }, rep, j);
    w.apply(&Step::Load { c: 0, ty: LEAF_A, id: "o.t1".into() }, rep, j);
    for _ in 0..2 {
        w.apply(&Step::Pass { c: 0 }, rep, j);
    }
    rep.count("fixed_shape_runs", 1);
    rep.count("passes", w.passes);
}

/// A burst of loads while the reloader is busy, followed at once by notified
/// edits of the assets loaded last: the registrations of those assets are
/// still queued when the notifications arrive.

/// Changes that were notified but not yet applied when `enhance_hot_reloading`
/// is called must be applied "by itself" afterwards: no further event follows.
fn enhance_with_pending(rep: &mut Report, rng: &mut Rng, n: usize) {
    use assets_manager::AssetCache;
    for case in 0..n {
        rep.eval();
        let mem = Mem::new("c05e", Hot::Yes);
        mem.set_logging(false);
        let k = rng.range(1, 5);
        for i in 0..k {
            mem.write(&format!("e.l{i}"), "a", format!("v0-{i}").as_bytes());
        }
        mem.write("e.n", "n0", b"load L10t e.l0");
        let cache: &'static AssetCache<Mem> = Box::leak(Box::new(AssetCache::with_source(mem.clone())));
        let leaves: Vec<_> = (0..k).map(|i| cache.load::<Leaf<1, 0, true>>(&format!("e.l{i}")).expect("load leaf")).collect();
        let node = cache.load::<Node<0>>("e.n").expect("load node");
        // edits, all notified and received by the reloader; some are applied by an explicit
        // hot_reload() before the switch, the later ones stay pending
        let flush_before = rng.chance(1, 3);
        let mut want: Vec<String> = (0..k).map(|i| format!("v0-{i}")).collect();
        let rounds = rng.range(1, 3);
        for r in 0..rounds {
            for i in 0..k {
                if i == 0 || rng.chance(1, 2) {
                    want[i] = format!("v{}-{i}", r + 1);
                    mem.write(&format!("e.l{i}"), "a", want[i].as_bytes());
                    mem.notify_file(&format!("e.l{i}"), "a");
                }
            }
            let sent = mem.sent();
            if !crate::util::wait_until(60_000, || cache.verif_events_handled().is_some_and(|h| h >= sent)) {
                rep.inconclusive("enhance-with-pending: event barrier watchdog");
                return;
            }
            if flush_before && r + 1 < rounds {
                cache.hot_reload();
            }
        }
        cache.enhance_hot_reloading();
        // FIFO barrier: this request is queued behind the switch to the 'static cache; in that
        // mode it reloads nothing itself
        cache.hot_reload();
        let scen = json!({"shape": "changes pending at enhance_hot_reloading", "case": case, "leaves": k, "rounds": rounds,
            "hot_reload_between_rounds": flush_before,
            "steps": "load all; edit + notify (received by the reloader); enhance_hot_reloading(); no further event"});
        let mut stale = vec![];
        for (i, h) in leaves.iter().enumerate() {
            let fresh = V::Leaf { ext: "a".into(), len: want[i].len(), hash: content_hash(want[i].as_bytes()) };
            let got = h.read().v.clone();
            if got != fresh {
                stale.push(json!({"id": format!("e.l{i}"), "cached": format!("{got:?}"), "fresh": format!("{fresh:?}")}));
            }
        }
        let fresh0 = V::Leaf { ext: "a".into(), len: want[0].len(), hash: content_hash(want[0].as_bytes()) };
        let got = node.read().trace.first().cloned();
        if got.as_ref() != Some(&fresh0) {
            stale.push(json!({"id": "e.n", "cached_snapshot_of_e.l0": format!("{got:?}"), "fresh": format!("{fresh0:?}")}));
        }
        if !stale.is_empty() {
            rep.violation("stale-after-enhance", "C05/stale-after-pass:pending-at-enhance", json!({"stale": stale}), scen);
        }
        rep.count("enhance_with_pending_cases", 1);
        rep.nontrivial(mix(0xe4a, mix(case as u64, k as u64)));
    }
}

fn burst_shape(rep: &mut Report, j: &Judge, static_mode: bool, n: usize) {
    let mut w = World::new(&WorldCfg { caches: vec![CacheKind::Hot], static_mode, content_mode: 0 });
    w.tag = json!({"shape": "burst", "loads": n});
    w.seed_file(0, "slow.s", "n0", "file slow.f a spin 40000000");
    w.seed_file(0, "slow.f", "a", "f0");
    for i in 0..n {
        w.seed_file(0, &format!("b.l{i}"), "a", &format!("b{i}#0"));
    }
    w.apply(&Step::Load { c: 0, ty: Ty::Node(0), id: "slow.s".into() }, rep, j);
    // keep the reloader busy (enhanced mode reloads at once; in hot_reload()
    // mode the registrations are simply queued until the pass)
    w.apply(&Step::Write { c: 0, id: "slow.f".into(), ext: "a".into(), content: "f1".into() }, rep, j);
    w.apply(&Step::NotifyAsync { c: 0, entries: vec![(false, "slow.f".into(), "a".into())] }, rep, j);
    for i in 0..n {
        w.apply(&Step::Load { c: 0, ty: LEAF_A, id: format!("b.l{i}") }, rep, j);
    }
    let mut entries = vec![];
    for i in [n - 1, n - 2, n / 2, 0] {
        let id = format!("b.l{i}");
        w.apply(&Step::Write { c: 0, id: id.clone(), ext: "a".into(), content: format!("b{i}#1") }, rep, j);
        entries.push((false, id, "a".to_string()));
    }
    w.apply(&Step::NotifyAsync { c: 0, entries }, rep, j);
    w.apply(&Step::Pass { c: 0 }, rep, j);
    rep.count("burst_shapes", 1);
    rep.count("passes", w.passes);
}

/// Several threads poll `reloaded_global` of one asset at the same moment
/// after exactly one rewrite: exactly one of them is told `true`.
fn concurrent_pollers(rep: &mut Report, rounds: usize) {
    use crate::mem::{Hot, Mem};
    use assets_manager::AssetCache;
    use std::sync::atomic::{AtomicBool, AtomicUsize, Ordering::SeqCst};
    let mem = Mem::new("c06p", Hot::Yes);
    mem.write("p", "a", b"p0");
    let cache = AssetCache::with_source(mem.clone());
    let h = cache.load::<Leaf<1, 0, true>>("p").expect("load p");
    let pollers = if cfg!(miri) { 2 } else { 4 };
    for r in 0..rounds {
        rep.eval();
        let before = crate::scen::rid_num(h.last_reload_id());
        let _ = h.reloaded_global();
        mem.write("p", "a", format!("p{}", r + 1).as_bytes());
        mem.notify_file("p", "a");
        let sent = mem.sent();
        if !crate::util::wait_until(if cfg!(miri) { 600_000 } else { 120_000 }, || cache.verif_events_handled() == Some(sent)) {
            rep.inconclusive("concurrent_pollers: barrier watchdog");
            return;
        }
        cache.hot_reload();
        let after = crate::scen::rid_num(h.last_reload_id());
        let go = AtomicBool::new(false);
        let ready = AtomicUsize::new(0);
        let trues = AtomicUsize::new(0);
        std::thread::scope(|s| {
            for _ in 0..pollers {
                s.spawn(|| {
                    ready.fetch_add(1, SeqCst);
                    while !go.load(SeqCst) {
                        crate::util::pause();
                        #[cfg(miri)]
                        std::thread::yield_now();
                    }
                    if h.reloaded_global() {
                        trues.fetch_add(1, SeqCst);
                    }
                });
            }
            while ready.load(SeqCst) < pollers {
                std::thread::yield_now();
            }
            go.store(true, SeqCst);
        });
        let t = trues.into_inner();
        if after - before != 1 || t != 1 {
            rep.violation(
                "reloaded-global-concurrent",
                "C06/reloaded-global-reported-not-exactly-once",
                json!({"rewrites": after - before, "pollers": pollers, "told_true": t}),
                json!({"kind": "concurrent pollers", "round": r}),
            );
            break;
        }
        rep.count("concurrent_poll_rounds", 1);
        rep.nontrivial(mix(0xc06, r as u64));
    }
}



/// A zero-sized hot-reloaded compound: there is no data a reload could change, but the reload
/// itself must happen and be reported (loader run again, reload id + 1, watcher answers once).
struct Marker;
static MARKER_LOADS: std::sync::atomic::AtomicU64 = std::sync::atomic::AtomicU64::new(0);

impl assets_manager::Compound for Marker {
    fn load(cache: assets_manager::AnyCache, id: &assets_manager::SharedString) -> Result<Self, assets_manager::BoxedError> {
        use assets_manager::source::Source;
        let src = cache.raw_source();
        src.read(id, "a")?;
        MARKER_LOADS.fetch_add(1, std::sync::atomic::Ordering::SeqCst);
        Ok(Marker)
    }
}

fn zero_sized_reloads(rep: &mut Report, rounds: usize) {
    use assets_manager::AssetCache;
    use std::sync::atomic::Ordering::SeqCst;
    let mem = Mem::new("c06z", Hot::Yes);
    mem.write("z", "a", b"z0");
    let cache = AssetCache::with_source(mem.clone());
    let h = cache.load::<Marker>("z").expect("load marker");
    let mut watcher = h.reload_watcher();
    for r in 0..rounds {
        rep.eval();
        let loads0 = MARKER_LOADS.load(SeqCst);
        let rid0 = crate::scen::rid_num(h.last_reload_id());
        mem.write("z", "a", format!("z{}", r + 1).as_bytes());
        mem.notify_file("z", "a");
        let sent = mem.sent();
        if !crate::util::wait_until(if cfg!(miri) { 600_000 } else { 120_000 }, || cache.verif_events_handled() == Some(sent)) {
            rep.inconclusive("zero_sized_reloads: barrier watchdog");
            return;
        }
        cache.hot_reload();
        let loads = MARKER_LOADS.load(SeqCst) - loads0;
        let rid = crate::scen::rid_num(h.last_reload_id());
        let (w1, w2) = (watcher.reloaded(), watcher.reloaded());
        let (g1, g2) = (h.reloaded_global(), h.reloaded_global());
        if !(loads == 1 && rid == rid0 + 1 && w1 && !w2 && g1 && !g2) {
            rep.violation(
                "zero-sized-reload",
                "C06/reload-of-zero-sized-asset-not-counted-exactly-once",
                json!({"loader_runs_in_the_pass": loads, "reload_id": [rid0, rid], "watcher": [w1, w2], "reloaded_global": [g1, g2]}),
                json!({"kind": "zero-sized hot-reloaded compound", "round": r}),
            );
            return;
        }
        rep.count("zero_sized_reload_rounds", 1);
        rep.nontrivial(mix(0xc06b, r as u64));
    }
}

/// A reader that keeps a guard alive while another thread is inside `hot_reload`: nothing
/// may report the reload before the rewrite has happened (the rewrite needs the guard to
/// go away), and afterwards it is reported exactly once with the new value in place.
fn guarded_poller(rep: &mut Report, rounds: usize) {
    use assets_manager::AssetCache;
    use std::sync::atomic::{AtomicBool, Ordering::SeqCst};
    let mem = Mem::new("c06g", Hot::Yes);
    mem.write("p", "a", b"p0");
    let cache = AssetCache::with_source(mem.clone());
    let h = cache.load::<Leaf<1, 0, true>>("p").expect("load p");
    let mut watcher = h.reload_watcher();
    let _ = watcher.reloaded();
    let _ = h.reloaded_global();
    let inside = AtomicBool::new(false);
    let returned = AtomicBool::new(false);
    // One scope around all rounds: the guard lives in a local of the closure. (A guard that is
    // moved into a closure and dropped there keeps its `&T` protected as a function argument
    // until the closure returns - Stacked Borrows would then flag the reload that follows the
    // drop, which is a matter of how the harness is written, not of the property.)
    std::thread::scope(|s| {
        for r in 0..rounds {
            rep.eval();
            let old = format!("p{r}");
            let new = format!("p{}", r + 1);
            let guard = h.read();
            let rid0 = crate::scen::rid_num(h.last_reload_id());
            mem.write("p", "a", new.as_bytes());
            mem.notify_file("p", "a");
            let sent = mem.sent();
            if !crate::util::wait_until(if cfg!(miri) { 600_000 } else { 120_000 }, || cache.verif_events_handled() == Some(sent)) {
                rep.inconclusive("guarded_poller: barrier watchdog");
                return;
            }
            inside.store(false, SeqCst);
            returned.store(false, SeqCst);
            let caller = s.spawn(|| {
                inside.store(true, SeqCst);
                cache.hot_reload();
                returned.store(true, SeqCst);
            });
            while !inside.load(SeqCst) {
                std::thread::yield_now();
            }
            // the call cannot finish while the guard is alive; poll what a reader can see
            let mut early: Option<serde_json::Value> = None;
            let polls = if cfg!(miri) { 40 } else { 1500 };
            for i in 0..polls {
                let w = watcher.reloaded();
                let g = h.reloaded_global();
                let rid = crate::scen::rid_num(h.last_reload_id());
                let still_old = guard.v == V::Leaf { ext: "a".into(), len: old.len(), hash: content_hash(old.as_bytes()) };
                if w || g || rid != rid0 || !still_old || returned.load(SeqCst) {
                    early = Some(json!({"poll": i, "watcher_reloaded": w, "reloaded_global": g, "reload_id": [rid0, rid],
                        "value_under_the_guard_is_still_the_old_one": still_old, "hot_reload_returned": returned.load(SeqCst)}));
                    break;
                }
                std::thread::yield_now();
                if i % 100 == 99 {
                    crate::util::spin(2_000);
                }
            }
            drop(guard);
            let _ = caller.join();
            let scen = json!({"kind": "reader holding a guard while another thread is inside hot_reload", "round": r});
            if let Some(e) = early {
                rep.violation("reported-before-rewrite", "C06/reload-reported-before-the-rewrite", e, scen);
                return;
            }
            // afterwards: exactly one report, the new value, id + 1
            let w1 = watcher.reloaded();
            let w2 = watcher.reloaded();
            let g1 = h.reloaded_global();
            let g2 = h.reloaded_global();
            let rid = crate::scen::rid_num(h.last_reload_id());
            let now_new = h.read().v == V::Leaf { ext: "a".into(), len: new.len(), hash: content_hash(new.as_bytes()) };
            if !(w1 && !w2 && g1 && !g2 && rid == rid0 + 1 && now_new) {
                rep.violation(
                    "report-after-rewrite",
                    "C06/reload-not-reported-exactly-once",
                    json!({"watcher": [w1, w2], "reloaded_global": [g1, g2], "reload_id": [rid0, rid], "new_value_in_place": now_new}),
                    scen,
                );
                return;
            }
            rep.count("guarded_poll_rounds", 1);
            rep.nontrivial(mix(0xc06a, r as u64));
        }
    });
}

/// The real `FileSystem` source, with the watcher's messages relayed through the harness on
/// their way to the cache (hook H-B): the relay forwards every message unchanged and remembers
/// what it forwarded, which gives a *logical* barrier - "the message that names this step's
/// unique marker file was forwarded as the F-th one and the reloader has handled F messages"
/// (hook H-A) - instead of a content-based one. (The first version waited until a sentinel
/// asset showed the content just written; a notification left over from the previous step
/// could trigger the sentinel's reload, which then read the *new* content, and the barrier was
/// passed before this step's own notifications had been handled: under load that produced
/// false "stale" reports.)
struct RelayFs {
    fs: assets_manager::source::FileSystem,
    relay: std::sync::Arc<Relay>,
}

#[derive(Default)]
struct Relay {
    /// entries of every forwarded message, in order
    forwarded: std::sync::Mutex<Vec<Vec<assets_manager::source::OwnedDirEntry>>>,
    stop: std::sync::atomic::AtomicBool,
}

impl assets_manager::source::Source for RelayFs {
    fn read(&self, id: &str, ext: &str) -> std::io::Result<assets_manager::source::FileContent<'_>> {
        self.fs.read(id, ext)
    }
    fn read_dir(&self, id: &str, f: &mut dyn FnMut(assets_manager::source::DirEntry)) -> std::io::Result<()> {
        self.fs.read_dir(id, f)
    }
    fn exists(&self, e: assets_manager::source::DirEntry) -> bool {
        self.fs.exists(e)
    }
    fn make_source(&self) -> Option<Box<dyn assets_manager::source::Source + Send>> {
        Some(Box::new(RelayFs { fs: self.fs.clone(), relay: self.relay.clone() }))
    }
    fn configure_hot_reloading(&self, events: assets_manager::hot_reloading::EventSender) -> Result<(), assets_manager::BoxedError> {
        use assets_manager::hot_reloading::verif::event_channel;
        let (tx, rx) = event_channel();
        let mut b = assets_manager::hot_reloading::FsWatcherBuilder::new()?;
        b.watch(self.fs.root().to_owned())?;
        b.build(tx);
        let relay = self.relay.clone();
        std::thread::Builder::new().name("vh_relay".into()).spawn(move || loop {
            match rx.recv_timeout(std::time::Duration::from_millis(20)) {
                Some(msg) => {
                    // remember first: `forwarded.len()` is then an upper bound of what the cache got
                    relay.forwarded.lock().unwrap().push(msg.clone());
                    if events.send_multiple(msg).is_err() {
                        break;
                    }
                }
                None => {
                    if relay.stop.load(std::sync::atomic::Ordering::SeqCst) {
                        break;
                    }
                }
            }
        })?;
        Ok(())
    }
}

/// End to end on the real filesystem source and its OS watcher: edits on disk, a marker file
/// with a name of its own per step as logical barrier (see `RelayFs`), then every cached asset
/// must equal a fresh load by a second, plain cache.
fn real_filesystem(rep: &mut Report, rng: &mut Rng, rounds: usize) {
    use assets_manager::source::{FileSystem, OwnedDirEntry};
    use assets_manager::AssetCache;
    for round in 0..rounds {
        rep.eval();
        let dir = crate::util::scratch_dir("c05fs");
        let w = |rel: &str, c: &str| {
            let p = dir.join(rel);
            std::fs::create_dir_all(p.parent().unwrap()).unwrap();
            std::fs::write(p, c).unwrap();
        };
        w("l/y0.a", "y0#0");
        w("l/y1.a", "y1#0");
        w("l/y2.a", "y2#0");
        w("g/x1.n0", "load L10t l.y1 file l.y2 a");
        w("g/x0.n0", "load N0 g.x1 load L10t l.y0 load D:a l");
        w("g/x2.n0", "iter D:a l owned N0 g.x1");
        w("s/start.a", "s0");
        let fs = match FileSystem::new(&dir) {
            Ok(f) => f,
            Err(e) => {
                rep.inconclusive(&format!("cannot open the scratch directory: {e}"));
                return;
            }
        };
        let relay = std::sync::Arc::new(Relay::default());
        let cache = AssetCache::with_source(RelayFs { fs, relay: relay.clone() });
        if !cache.as_any_cache().is_hot_reloaded() {
            rep.inconclusive("the filesystem watcher did not start");
            return;
        }
        let keys: Vec<(Ty, &str)> = vec![(Ty::Node(0), "g.x0"), (Ty::Node(0), "g.x1"), (Ty::Node(0), "g.x2"), (Ty::Dir(Elem::LeafA), "l"),
            (LEAF_A, "l.y0"), (LEAF_A, "l.y1"), (LEAF_A, "l.y2")];
        for (ty, id) in &keys {
            let _ = op_load(cache.as_any_cache(), *ty, id);
        }
        let mut steps = vec![];
        let nsteps = rng.range(2, 6);
        let mut extra = 0;
        let mut ok = true;
        for step in 0..nsteps {
            let what = match rng.below(6) {
                0 | 1 => {
                    let k = rng.below(3);
                    w(&format!("l/y{k}.a"), &format!("y{k}#{}", step + 1));
                    format!("modify l/y{k}.a")
                }
                2 => {
                    extra += 1;
                    w(&format!("l/extra{extra}.a"), "e");
                    format!("create l/extra{extra}.a")
                }
                3 if extra > 0 => {
                    let _ = std::fs::remove_file(dir.join(format!("l/extra{extra}.a")));
                    extra -= 1;
                    format!("delete l/extra{}.a", extra + 1)
                }
                4 if extra > 0 => {
                    let _ = std::fs::rename(dir.join(format!("l/extra{extra}.a")), dir.join(format!("l/moved{step}.a")));
                    extra -= 1;
                    format!("rename l/extra{}.a -> l/moved{step}.a", extra + 1)
                }
                _ => {
                    w("g/x1.n0", &format!("load L10t l.y1 file l.y2 a spin {}", step + 1));
                    "rewrite g/x1.n0".to_string()
                }
            };
            if std::env::var_os("VH_TRACE").is_some() {
                eprintln!("STEP round {round} step {step}: {what}");
            }
            steps.push(what);
            // logical barrier: a marker file whose name belongs to this step; every notification
            // that names it was produced after this step's edits (inotify, the handler and both
            // channels are FIFO)
            let marker = format!("done{step}");
            w(&format!("s/{marker}.a"), "m");
            let marker_id = format!("s.{marker}");
            let mut upto = 0usize;
            let seen = crate::util::wait_until(60_000, || {
                let f = relay.forwarded.lock().unwrap();
                match f.iter().position(|m| m.iter().any(|e| matches!(e, OwnedDirEntry::File(id, _) if id.as_str() == marker_id))) {
                    Some(i) => {
                        upto = i + 1;
                        true
                    }
                    None => false,
                }
            });
            let handled = seen && crate::util::wait_until(60_000, || cache.verif_events_handled().is_some_and(|h| h >= upto));
            if !handled {
                rep.inconclusive("real filesystem: the marker notification was not delivered and handled within 60 s");
                ok = false;
                break;
            }
            cache.hot_reload();
            // compare with a fresh, plain cache over the same directory
            let fresh = AssetCache::without_hot_reloading(FileSystem::new(&dir).expect("fresh source"));
            for (ty, id) in &keys {
                let now = op_cached(cache.as_any_cache(), *ty, id);
                let want = op_load(fresh.as_any_cache(), *ty, id).ok();
                if let (Some(now), Some(want)) = (&now, &want) {
                    if now != want {
                        if std::env::var_os("VH_TRACE").is_some() {
                            eprintln!("STALE round {round} step {step}: {} {id}", ty.tag());
                        }
                        rep.violation(
                            "stale-after-pass",
                            "C05/real-filesystem:stale-after-pass",
                            json!({"key": format!("{} {id:?}", ty.tag()), "cached": format!("{now:?}"), "fresh_load": format!("{want:?}")}),
                            json!({"kind": "real filesystem", "round": round, "edits": steps, "messages_forwarded_up_to_the_marker": upto}),
                        );
                    }
                }
            }
            rep.count("real_fs_steps", 1);
        }
        if ok {
            rep.nontrivial(fnv_str(&format!("{steps:?}")));
        }
        if round == 0 {
            rep.sample(json!({"kind": "real filesystem history", "edits": steps}));
        }
        relay.stop.store(true, std::sync::atomic::Ordering::SeqCst);
        drop(cache);
        let _ = std::fs::remove_dir_all(&dir);
        if !ok {
            return;
        }
    }
}

fn run_with(args: &Args, judge: Judge, silent: bool, rule: &str) -> Report {
    let mut rep = Report::new(args);
    rep.rule = rule.into();
    let miri = cfg!(miri);
    let rng = Rng::new(args.seed).sub(if silent { 6 } else { 5 } + args.shard as u64 * 1000);
    CTX.log_on.store(false, std::sync::atomic::Ordering::SeqCst);
    fixed_shapes(&mut rep, &judge, false);
    if !miri {
        fixed_shapes(&mut rep, &judge, true);
        for k in 0..args.n(3, 12) {
            burst_shape(&mut rep, &judge, true, 150 + 25 * k);
        }
        burst_shape(&mut rep, &judge, false, 120);
    }
    if !silent && judge.values {
        let mut r = rng.sub(0xe4);
        enhance_with_pending(&mut rep, &mut r, if miri { 1 } else { args.n(20, 200) });
    }
    if !silent && !miri && judge.values {
        let mut r = rng.sub(0xf5);
        real_filesystem(&mut rep, &mut r, args.n(6, 60));
    }
    if silent {
        concurrent_pollers(&mut rep, if miri { 3 } else { args.n(1_500, 20_000) });
        guarded_poller(&mut rep, if miri { 2 } else { args.n(300, 5_000) });
        zero_sized_reloads(&mut rep, if miri { 2 } else { args.n(50, 500) });
    }
    let nhist = if miri { args.n(2, 6) } else { args.n(250, 4_000) };
    let mut multi_total = 0;
    // `--only H` re-runs a single history (replay)
    let only: Option<usize> = args
        .extra
        .iter()
        .position(|a| a == "--only")
        .and_then(|i| args.extra.get(i + 1))
        .and_then(|v| v.parse().ok());
    for h in 0..nhist {
        if only.is_some_and(|o| o != h) {
            continue;
        }
        rep.eval();
        // every history has its own generator so that it can be replayed alone
        let mut rng = rng.sub(h as u64);
        let static_mode = !miri && h % 5 == 4 && h / 5 < 60;
        if static_mode {
            rep.count("enhanced_mode_histories", 1);
        }
        let cfg = HistCfg {
            n_nodes: if miri { 3 } else { rng.range(2, 12) },
            n_leaves: if miri { 2 } else { rng.range(1, 5) },
            rounds: if miri { 2 } else { rng.range(2, 8) },
            static_mode,
            rich: h % 3 != 0,
            silent_edits: silent,
            content_mode: 3,
        };
        let tag = json!({"history": h, "seed": args.seed, "shard": args.shard, "replay_args": format!("--only {h}")});
        let (hash, multi) = history(&mut rep, &mut rng, &judge, &cfg, tag);
        multi_total += multi;
        if multi > 0 {
            rep.nontrivial(mix(hash, static_mode as u64));
        }
    }
    rep.count("histories", nhist as u64);
    rep.count("passes_with_2plus_reloads", multi_total);
    rep.count("log_inexistant_reverse_dependency", crate::logcap::inexistant_rdeps());
    rep.count("log_error_reloading", crate::logcap::reload_errors());
    rep.floor("passes_with_2plus_reloads", multi_total, if miri { 1 } else { args.n(100, 2_500) as u64 });
    rep.floor_set("edit_kinds", if miri { 3 } else { 9 });
    rep.floor("histories_with_diamond", rep.get("histories_with_diamond"), if miri { 0 } else { 1 });
    rep
}

pub fn run(args: &Args) -> Report {
    let mut j = Judge::none("C05");
    j.values = true;
    run_with(
        args,
        j,
        false,
        "random recipe DAGs (2..12 compound nodes over 1..5 leaves; edges load / try / get_cached(present) / \
         load_owned / directory / raw file reads) loaded through the real cache, then rounds of edits (value, \
         rewiring, break, repair, create, delete, recipe break) notified singly or batched with duplicates and \
         noise, each followed by a quiescence barrier and hot_reload() (or enhance_hot_reloading mode); after \
         every pass the value of every cached asset is compared with the reference model's fixpoint (what a \
         fresh load against the current source and cache gives). A history is non-trivial when at least one \
         pass reloaded two or more assets; distinct = distinct step-sequence hashes",
    )
}

pub fn run_c06(args: &Args) -> Report {
    let mut j = Judge::none("C06");
    j.precision = true;
    run_with(
        args,
        j,
        true,
        "the histories of C05 plus edits that are never notified, notifications without edit and for unknown \
         entries; per pass and per cached asset: reload-id delta in the allowed set (0 for unaffected, <= 1 for \
         affected, >= 1 when the value changed, 0 on failed reload), watcher / reloaded_global answers equal \
         'id moved since last asked', and every source read on the reloader thread lies inside a pass and is \
         explained by an affected asset's reads in the model. Non-trivial = some pass reloaded >= 2 assets",
    )
}
