//! C10 — what is declared non-reloadable is never rewritten.

use crate::assets::*;
use crate::reload::{CacheKind, Judge, Step, World, WorldCfg};
use crate::rng::{fnv_str, mix, Rng};
use crate::{Args, Report};
use serde_json::json;

#[derive(Clone, Copy, Debug, PartialEq, Eq)]
enum H {
    Load,
    Remove,
    Take,
    Clear,
    Insert,
    /// edit the file the key maps to + notify it + barrier + hot_reload
    Poke,
}

const ALPHA: [H; 6] = [H::Load, H::Remove, H::Take, H::Clear, H::Insert, H::Poke];

fn judge() -> Judge {
    let mut j = Judge::none("C10");
    j.protected = true;
    j.results = true;
    j
}

struct Target {
    ty: Ty,
    /// extension of the file the key maps to
    ext: &'static str,
    /// the type can be created with get_or_insert
    insertable: bool,
    loadable: bool,
}

const TARGETS: [Target; 4] = [
    Target { ty: LEAF_A, ext: "a", insertable: true, loadable: true },
    Target { ty: LEAF_S, ext: "a", insertable: true, loadable: true },
    Target { ty: Ty::Node(0), ext: "n0", insertable: true, loadable: true },
    Target { ty: Ty::Stored(0), ext: "a", insertable: true, loadable: false },
];

fn run_one(rep: &mut Report, kind: CacheKind, static_mode: bool, t: &Target, seq: &[H], tag: serde_json::Value) -> bool {
    let j = judge();
    let mut w = World::new(&WorldCfg { caches: vec![kind], static_mode, content_mode: 3 });
    w.tag = tag;
    let id = "k".to_string();
    let mut version = 0u64;
    let mut content = |v: &mut u64| -> String {
        *v += 1;
        if t.ext == "n0" {
            // a recipe whose value changes with the version
            format!("file k.dep a spin {}", *v)
        } else {
            format!("k#v{}", *v)
        }
    };
    w.seed_file(0, "k.dep", "a", "dep");
    let c0 = content(&mut version);
    w.seed_file(0, &id, t.ext, &c0);
    let mut had_insert_then_poke = false;
    let mut inserted_live = false;
    let mut seen_load_then_gone_then_insert = false;
    let mut loaded_before = false;
    let mut gone_after_load = false;
    for h in seq {
        match h {
            H::Load => {
                if t.loadable {
                    w.apply(&Step::Load { c: 0, ty: t.ty, id: id.clone() }, rep, &j);
                    if !inserted_live {
                        loaded_before = true;
                        gone_after_load = false;
                    }
                }
            }
            H::Remove => {
                if !static_mode {
                    w.apply(&Step::Remove { c: 0, ty: t.ty, id: id.clone() }, rep, &j);
                    inserted_live = false;
                    gone_after_load = loaded_before;
                }
            }
            H::Take => {
                if !static_mode {
                    w.apply(&Step::Take { c: 0, ty: t.ty, id: id.clone() }, rep, &j);
                    inserted_live = false;
                    gone_after_load = loaded_before;
                }
            }
            H::Clear => {
                if !static_mode {
                    w.apply(&Step::Clear { c: 0 }, rep, &j);
                    inserted_live = false;
                    gone_after_load = loaded_before;
                }
            }
            H::Insert => {
                if t.insertable {
                    let present = w.model.contains(0, t.ty, &id);
                    w.apply(&Step::GetOrInsert { c: 0, ty: t.ty, id: id.clone(), n: 77 }, rep, &j);
                    if !present {
                        inserted_live = true;
                        if gone_after_load {
                            seen_load_then_gone_then_insert = true;
                        }
                    }
                }
            }
            H::Poke => {
                let c = content(&mut version);
                w.apply(&Step::Write { c: 0, id: id.clone(), ext: t.ext.into(), content: c }, rep, &j);
                w.apply(&Step::Write { c: 0, id: "k.dep".into(), ext: "a".into(), content: format!("dep{version}") }, rep, &j);
                w.apply(
                    &Step::Notify {
                        c: 0,
                        entries: vec![(false, id.clone(), t.ext.into()), (false, "k.dep".into(), "a".into())],
                        batched: version % 2 == 0,
                    },
                    rep,
                    &j,
                );
                w.apply(&Step::Pass { c: 0 }, rep, &j);
                if inserted_live {
                    had_insert_then_poke = true;
                }
            }
        }
        if w.aborted.is_some() {
            break;
        }
    }
    rep.count("passes", w.passes);
    if seen_load_then_gone_then_insert && had_insert_then_poke {
        rep.count("histories_load_gone_insert_poke", 1);
    }
    had_insert_then_poke
}

/// Types that opt out of hot-reloading keep doing so behind the wrappers the
/// crate provides (`Arc<T>`, `OnceInitCell<T, _>`), for plain and enhanced mode.
fn opt_out_wrappers(rep: &mut Report, rounds: usize) {
    use crate::mem::{Hot, Mem};
    use assets_manager::{AssetCache, OnceInitCell};
    use std::sync::Arc;
    type Frozen = Leaf<1, 0, false>;
    for round in 0..rounds {
        rep.eval();
        let static_mode = round % 3 == 2;
        let mem = Mem::new("c10w", Hot::Yes);
        mem.write("w", "a", b"w0");
        let owned;
        let cache: &AssetCache<Mem> = if static_mode {
            let l: &'static AssetCache<Mem> = Box::leak(Box::new(AssetCache::with_source(mem.clone())));
            l.enhance_hot_reloading();
            l
        } else {
            owned = AssetCache::with_source(mem.clone());
            &owned
        };
        let plain = cache.load::<Frozen>("w").expect("plain");
        let arc = cache.load::<Arc<Frozen>>("w").expect("arc");
        let cell = cache.load::<OnceInitCell<Frozen, CellVal>>("w").expect("cell");
        let p0 = (plain.get() as *const Frozen as usize, plain.get().token.serial());
        let a0 = (Arc::as_ptr(&arc.read()) as usize, arc.read().token.serial());
        let c0 = cell.read().get_or_init(|_| CellVal { token: crate::ledger::Token::new(), n: 7 }).token.serial();
        let scen = json!({"kind": "opt-out wrappers", "round": round, "enhanced_mode": static_mode});
        for g in 1..=3 {
            mem.write("w", "a", format!("w{g}").as_bytes());
            mem.notify_file("w", "a");
            let sent = mem.sent();
            if !crate::util::wait_until(if cfg!(miri) { 600_000 } else { 120_000 }, || cache.verif_events_handled() == Some(sent)) {
                rep.inconclusive("opt_out_wrappers: barrier watchdog");
                return;
            }
            if !static_mode {
                cache.hot_reload();
            }
            let p = (plain.get() as *const Frozen as usize, plain.get().token.serial());
            let a = (Arc::as_ptr(&arc.read()) as usize, arc.read().token.serial());
            let c = cell.read().get().map(|v| v.token.serial());
            let ids = [
                crate::scen::rid_num(plain.last_reload_id()),
                crate::scen::rid_num(arc.last_reload_id()),
                crate::scen::rid_num(cell.last_reload_id()),
            ];
            let mut changed = vec![];
            if p != p0 || ids[0] != 0 {
                changed.push("T");
            }
            if a != a0 || ids[1] != 0 {
                changed.push("Arc<T>");
            }
            if c != Some(c0) || ids[2] != 0 {
                changed.push("OnceInitCell<T, _>");
            }
            if !changed.is_empty() {
                rep.violation(
                    "protected-rewritten",
                    "C10/opt-out-type-rewritten-behind-wrapper",
                    json!({"rewritten": changed, "reload_ids": ids, "after_notified_edits": g}),
                    scen.clone(),
                );
                break;
            }
            rep.count("protected_entries_checked", 3);
        }
        rep.nontrivial(mix(0x10a, round as u64));
    }
}


/// `get_or_insert` called from inside a `Compound::load` (on the calling thread, or on the
/// reloader thread during a reload) stores a value that hot-reloading must leave alone, also
/// when the key is already known to the dependency graph.
fn insert_inside_load(rep: &mut Report, rounds: usize) {
    use crate::mem::{Hot, Mem};
    use assets_manager::AssetCache;
    type L = Leaf<1, 0, true>;
    for round in 0..rounds {
        rep.eval();
        let variant = round % 3;
        let mem = Mem::new("c10i", Hot::Yes);
        mem.set_logging(false);
        mem.write("x", "a", b"x0");
        let mut cache = AssetCache::with_source(mem.clone());
        let how = match variant {
            // the same load makes the key known (load_owned) and then fills it
            0 => {
                mem.write("c", "n0", b"owned L10t x insert L10t x 50");
                "Compound::load: load_owned(x) then get_or_insert(x, 50)"
            }
            // the key is known from an earlier load + remove
            1 => {
                let _ = cache.load::<L>("x");
                cache.remove::<L>("x");
                mem.write("c", "n0", b"insert L10t x 50");
                "load(x); remove(x); Compound::load: get_or_insert(x, 50)"
            }
            // the get_or_insert happens on the reloader thread, when the compound is reloaded
            _ => {
                mem.write("c", "n0", b"owned L10t x");
                "Compound::load: load_owned(x); recipe edited to load_owned(x) + get_or_insert(x, 50); reloaded"
            }
        };
        let scen = json!({"kind": "get_or_insert inside Compound::load", "round": round, "how": how});
        if cache.load::<Node<0>>("c").is_err() {
            rep.inconclusive("insert_inside_load: the compound did not load");
            return;
        }
        let pass = |mem: &Mem, cache: &AssetCache<Mem>| -> bool {
            let sent = mem.sent();
            if !crate::util::wait_until(if cfg!(miri) { 600_000 } else { 120_000 }, || cache.verif_events_handled() == Some(sent)) {
                return false;
            }
            cache.hot_reload();
            true
        };
        if variant == 2 {
            mem.write("c", "n0", b"owned L10t x insert L10t x 50");
            mem.notify_file("c", "n0");
            if !pass(&mem, &cache) {
                rep.inconclusive("insert_inside_load: barrier watchdog");
                return;
            }
        }
        let Some(hx) = cache.get_cached::<L>("x") else {
            rep.violation("get-or-insert-result", "C10/get-or-insert-result", json!({"what": "the key filled by get_or_insert inside the load is absent"}), scen);
            continue;
        };
        let before = (hx.read().v.clone(), hx.read().token.serial(), crate::scen::rid_num(hx.last_reload_id()));
        if before.0 != V::Stored(50) {
            rep.violation("get-or-insert-result", "C10/get-or-insert-result", json!({"stored": format!("{:?}", before.0), "want": "Stored(50)"}), scen.clone());
            continue;
        }
        for g in 1..=3 {
            mem.write("x", "a", format!("x{g}").as_bytes());
            mem.notify_file("x", "a");
            if !pass(&mem, &cache) {
                rep.inconclusive("insert_inside_load: barrier watchdog");
                return;
            }
            let now = (hx.read().v.clone(), hx.read().token.serial(), crate::scen::rid_num(hx.last_reload_id()));
            if now != before {
                rep.violation(
                    "protected-rewritten",
                    "C10/protected-rewritten:get-or-insert-inside-load",
                    json!({"before": format!("{before:?}"), "after": format!("{now:?}"), "after_notified_edits_of_x.a": g}),
                    scen.clone(),
                );
                break;
            }
            rep.count("protected_entries_checked", 1);
        }
        rep.nontrivial(mix(0x10b, round as u64));
    }
}

pub fn run(args: &Args) -> Report {
    let mut rep = Report::new(args);
    rep.rule = "histories on one key mixing load / remove / take / clear / get_or_insert / (edit the file the key \
                maps to + notify + barrier + hot_reload): every history up to length L over that 6-letter alphabet \
                (each closed by a final poke), for a reloadable leaf type, a type that opts out of hot-reloading, a \
                compound and a storable-only payload, on caches built with_source (hot), without_hot_reloading, over \
                a source without hot-reloading support and one whose configuration fails, and in \
                enhance_hot_reloading mode; plus random longer histories. After every pass the value, token, reload \
                id and Handle::get() address/content of every protected entry must be unchanged. A history is \
                non-trivial when a protected entry lived through at least one notified edit"
        .into();
    let miri = cfg!(miri);
    let mut rng = Rng::new(args.seed).sub(10 + args.shard as u64 * 1000);
    CTX.log_on.store(false, std::sync::atomic::Ordering::SeqCst);
    let maxlen = if miri { 2 } else if args.thorough() { 5 } else { 4 };
    let kinds = [CacheKind::Hot, CacheKind::Cold, CacheKind::NoSupport, CacheKind::ConfigureFails];
    let mut idx = 0usize;
    let mut static_budget = if miri { 0 } else { 40 };
    for len in 0..=maxlen {
        for code in 0..ALPHA.len().pow(len as u32) {
            let mut seq: Vec<H> = (0..len).map(|i| ALPHA[(code / ALPHA.len().pow(i as u32)) % ALPHA.len()]).collect();
            seq.push(H::Poke);
            for (ti, t) in TARGETS.iter().enumerate() {
                idx += 1;
                if idx % args.nshards != args.shard {
                    continue;
                }
                if miri && idx % 11 != 0 {
                    continue;
                }
                // the hot cache gets every history; the other constructors a rotating share
                let kind = if idx % 3 == 0 { kinds[1 + (idx / 3) % 3] } else { CacheKind::Hot };
                let static_mode = kind == CacheKind::Hot && static_budget > 0 && idx % 97 == 0;
                if static_mode {
                    static_budget -= 1;
                }
                rep.eval();
                let tag = json!({"target": t.ty.tag(), "cache": format!("{kind:?}"), "sequence": format!("{seq:?}")});
                let nt = run_one(&mut rep, kind, static_mode, t, &seq, tag);
                rep.seen("cache_kinds", &format!("{kind:?}"));
                rep.seen("targets", &t.ty.tag());
                if nt || kind != CacheKind::Hot || !t.ty.hot() {
                    rep.nontrivial(mix(fnv_str(&format!("{seq:?}{kind:?}")), ti as u64));
                }
                if idx == 500 {
                    rep.sample(json!({"target": t.ty.tag(), "cache": format!("{kind:?}"), "sequence": format!("{seq:?}")}));
                }
            }
        }
    }
    rep.count("exhaustive_histories", rep.evaluations);
    rep.extra.insert("exhaustive_max_len".into(), json!(maxlen));
    // random longer histories
    let nrand = if miri { 2 } else { args.n(300, 5_000) };
    for h in 0..nrand {
        rep.eval();
        let len = rng.range(6, 14);
        let seq: Vec<H> = (0..len).map(|_| *rng.pick(&ALPHA)).chain([H::Poke]).collect();
        let t = &TARGETS[h % TARGETS.len()];
        let kind = if h % 4 == 0 { kinds[1 + (h / 4) % 3] } else { CacheKind::Hot };
        let tag = json!({"target": t.ty.tag(), "cache": format!("{kind:?}"), "sequence": format!("{seq:?}"), "random": h});
        let nt = run_one(&mut rep, kind, false, t, &seq, tag);
        if nt {
            rep.nontrivial(fnv_str(&format!("{seq:?}{kind:?}{}", t.ty.tag())));
        }
        if h == 0 {
            rep.sample(json!({"target": t.ty.tag(), "cache": format!("{kind:?}"), "sequence": format!("{seq:?}")}));
        }
    }
    if args.shard == 0 {
        opt_out_wrappers(&mut rep, if miri { 1 } else { args.n(12, 60) });
        insert_inside_load(&mut rep, if miri { 3 } else { args.n(12, 60) });
    }
    rep.exhaustive = Some(!miri);
    rep.floor_set("cache_kinds", if miri { 1 } else { 4 });
    rep.floor("protected_entries_checked", rep.get("protected_entries_checked"), if miri { 2 } else { 500 });
    rep.floor(
        "histories_load_gone_insert_poke",
        rep.get("histories_load_gone_insert_poke"),
        if miri { 0 } else { 20 },
    );
    rep
}
