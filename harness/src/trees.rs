//! Generated directory trees and their materialisation as every source kind
//! (C04, C11): on disk, tar / zip written in-process and by python3, in memory
//! and file-backed.  The ground truth is the generated tree itself.

use crate::rng::Rng;
use assets_manager::source::{FileSystem, Source, Tar, Zip};
use serde_json::{json, Value};
use std::collections::{BTreeMap, BTreeSet};
use std::io::Write;
use std::path::{Path, PathBuf};

#[derive(Clone, Debug, Default)]
pub struct GenTree {
    /// directory paths with '/' separators (never the root)
    pub dirs: BTreeSet<String>,
    /// file path -> content
    pub files: BTreeMap<String, Vec<u8>>,
    /// files whose path is not expressible as an id (double extension, a dotted directory
    /// name, a hidden file): present in every materialised form, absent from the ground truth;
    /// the valid entries next to them must be unaffected
    pub extras: BTreeMap<String, Vec<u8>>,
    pub classes: BTreeSet<&'static str>,
}

/// Ground truth in id space.
#[derive(Clone, Debug, Default, PartialEq, Eq)]
pub struct Truth {
    pub files: BTreeMap<(String, String), Vec<u8>>,
    /// directory ids, including the root ""
    pub dirs: BTreeSet<String>,
    /// the tree also holds unrepresentable names: listings may contain entries derived from
    /// them (unspecified), everything in the truth must still be there exactly once
    pub lenient: bool,
}

pub fn id_of(path: &str) -> String {
    path.replace('/', ".")
}

pub fn split_file(path: &str) -> (String, String) {
    let (dir, name) = match path.rfind('/') {
        Some(i) => (&path[..i], &path[i + 1..]),
        None => ("", path),
    };
    let (stem, ext) = match name.rfind('.') {
        Some(i) => (&name[..i], &name[i + 1..]),
        None => (name, ""),
    };
    let id = if dir.is_empty() { stem.to_string() } else { format!("{}.{}", id_of(dir), stem) };
    (id, ext.to_string())
}

impl GenTree {
    pub fn truth(&self, keep_empty_dirs: bool) -> Truth {
        let mut t = Truth::default();
        t.lenient = !self.extras.is_empty();
        t.dirs.insert(String::new());
        for (p, c) in &self.files {
            t.files.insert(split_file(p), c.clone());
            // every ancestor is implied
            let mut cur = p.as_str();
            while let Some(i) = cur.rfind('/') {
                cur = &cur[..i];
                t.dirs.insert(id_of(cur));
            }
        }
        if keep_empty_dirs {
            for d in &self.dirs {
                t.dirs.insert(id_of(d));
                let mut cur = d.as_str();
                while let Some(i) = cur.rfind('/') {
                    cur = &cur[..i];
                    t.dirs.insert(id_of(cur));
                }
            }
        }
        t
    }

    pub fn describe(&self) -> Value {
        json!({"dirs": self.dirs, "files": self.files.iter().map(|(p, c)| format!("{p} ({} B)", c.len())).collect::<Vec<_>>(),
               "unrepresentable_extras": self.extras.keys().collect::<Vec<_>>(), "classes": self.classes})
    }
}

impl Truth {
    pub fn parent(id: &str) -> Option<&str> {
        crate::mem::parent_of(id)
    }

    /// Expected children of a directory: ("f:id:ext" | "d:id"), sorted.
    pub fn children(&self, dir: &str) -> Vec<String> {
        let mut v: Vec<String> = self
            .files
            .keys()
            .filter(|(i, _)| Self::parent(i) == Some(dir))
            .map(|(i, x)| format!("f:{i}:{x}"))
            .chain(self.dirs.iter().filter(|d| Self::parent(d) == Some(dir)).map(|d| format!("d:{d}")))
            .collect();
        v.sort();
        v
    }

    /// Ids of the files directly in `dir` with one of `exts`, sorted and deduplicated.
    pub fn ids_in(&self, dir: &str, exts: &[&str]) -> Vec<String> {
        let mut v: Vec<String> = self
            .files
            .keys()
            .filter(|(i, x)| Self::parent(i) == Some(dir) && exts.contains(&x.as_str()))
            .map(|(i, _)| i.clone())
            .collect();
        v.sort();
        v.dedup();
        v
    }

    /// Directory ids below (and including) `dir`.
    pub fn subtree(&self, dir: &str) -> Vec<String> {
        self.dirs
            .iter()
            .filter(|d| d.as_str() == dir || dir.is_empty() || d.starts_with(&format!("{dir}.")))
            .cloned()
            .collect()
    }
}

const STEMS: [(&str, &str); 10] = [
    ("alpha", "ascii"),
    ("b7", "ascii"),
    ("é", "unicode"),
    ("日本", "unicode"),
    ("ñandú", "unicode"),
    ("with space", "space"),
    ("tab\tname", "space"),
    ("UPPER", "ascii"),
    ("x-y_z", "ascii"),
    ("a", "ascii"),
];
const EXTS: [&str; 6] = ["a", "txt", "", "m1", "n0", "data"];

pub fn gen_tree(r: &mut Rng, index: usize) -> GenTree {
    let mut t = GenTree::default();
    let mut mark = |t: &mut GenTree, c: &'static str| {
        t.classes.insert(c);
    };
    fn content(r: &mut Rng) -> Vec<u8> {
        // now and then a large incompressible file (larger than the 32 KiB
        // windows / buffers of the deflate decoder)
        if !cfg!(miri) && r.chance(1, 16) {
            let n = r.range(40_000, 300_000);
            return r.bytes(n);
        }
        match r.below(6) {
            0 => vec![],
            1 => vec![0],
            2 => r.bytes(if cfg!(miri) { 64 } else { 4096 }),
            _ => {
                let n = r.below(40);
                r.bytes(n)
            }
        }
    }
    // random part (none for some trees: a tree that is just one empty directory is an archive
    // without members in the forms that carry no directory members)
    let mut dirs: Vec<String> = vec![String::new()];
    let depth = if index % 28 == 4 { 0 } else { r.range(1, 4) };
    for d in 0..depth {
        let parents: Vec<String> = dirs.iter().filter(|p| p.matches('/').count() + usize::from(!p.is_empty()) == d).cloned().collect();
        for p in parents {
            for _ in 0..r.below(3) {
                let (stem, class) = *r.pick(&STEMS);
                let path = if p.is_empty() { stem.to_string() } else { format!("{p}/{stem}") };
                if t.dirs.insert(path.clone()) {
                    dirs.push(path);
                    mark(&mut t, class);
                }
            }
        }
    }
    for d in dirs.clone() {
        for _ in 0..if index % 28 == 4 { 0 } else { r.below(5) } {
            let (stem, class) = *r.pick(&STEMS);
            let ext = *r.pick(&EXTS);
            let name = if ext.is_empty() { stem.to_string() } else { format!("{stem}.{ext}") };
            let path = if d.is_empty() { name } else { format!("{d}/{name}") };
            // a file and a directory cannot share a *name* on a filesystem
            if t.dirs.contains(&path) {
                continue;
            }
            let c = content(r);
            t.files.insert(path, c);
            mark(&mut t, class);
            if ext.is_empty() {
                mark(&mut t, "empty-extension");
            }
        }
    }
    // deliberate constructs, rotated so that every run sees all of them
    let base = if r.chance(1, 2) || t.dirs.is_empty() { String::new() } else { r.pick(&dirs).clone() };
    let j = |n: &str| if base.is_empty() { n.to_string() } else { format!("{base}/{n}") };
    match index % 7 {
        0 => {
            // one stem, several extensions (and none)
            t.files.insert(j("multi.a"), b"A".to_vec());
            t.files.insert(j("multi.txt"), b"T".to_vec());
            if !t.dirs.contains(&j("multi")) {
                t.files.insert(j("multi"), b"N".to_vec());
            }
            mark(&mut t, "same-stem-several-extensions");
        }
        1 => {
            // a directory and a file sharing an id
            t.dirs.insert(j("shared"));
            t.files.insert(j("shared/inner.a"), b"I".to_vec());
            t.files.insert(j("shared.txt"), b"S".to_vec());
            mark(&mut t, "dir-and-file-share-id");
        }
        2 => {
            // a path longer than 100 bytes
            let long = "long-directory-name-0123456789-abcdefghijklmnopqrstuvwxyz";
            let p = format!("{}/{}", j(long), long);
            t.dirs.insert(j(long));
            t.dirs.insert(p.clone());
            t.files.insert(format!("{p}/deep-file-with-a-long-name.data"), content(r));
            mark(&mut t, "long-path");
        }
        3 => {
            // a directory that only exists through its descendants
            t.dirs.insert(j("implied"));
            t.dirs.insert(j("implied/only"));
            t.files.insert(j("implied/only/leaf.a"), b"L".to_vec());
            mark(&mut t, "implied-only-directory");
        }
        4 => {
            // an empty directory
            t.dirs.insert(j("hollow"));
            mark(&mut t, "empty-directory");
        }
        6 => {
            // names that cannot be expressed as ids, among valid ones (before and after them in
            // every member order used)
            t.extras.insert(j("pack.tar.gz"), b"Z".to_vec());
            t.extras.insert(j(".hidden"), b"H".to_vec());
            t.extras.insert(j("v1.2/inside.a"), b"V".to_vec());
            t.files.insert(j("aaa-before.a"), b"B".to_vec());
            t.files.insert(j("zzz-after.a"), b"A".to_vec());
            t.dirs.insert(j("zsub"));
            t.files.insert(j("zsub/after.a"), b"S".to_vec());
            t.files.insert(j("zsub/after.txt"), b"T".to_vec());
            mark(&mut t, "unrepresentable-names-among-valid-ones");
        }
        _ => {
            // extension-less file next to a same-named-stem file with extension
            t.files.insert(j("plain"), b"P".to_vec());
            t.files.insert(j("plain.m1"), b"Q".to_vec());
            mark(&mut t, "empty-extension");
            mark(&mut t, "same-stem-several-extensions");
        }
    }
    // make sure every ancestor of a file is a directory of the tree
    let paths: Vec<String> = t.files.keys().cloned().collect();
    for p in paths {
        let mut cur = p.as_str();
        while let Some(i) = cur.rfind('/') {
            cur = &cur[..i];
            t.dirs.insert(cur.to_string());
        }
    }
    // a name cannot be both a file and a directory on disk
    let clash: Vec<String> = t.files.keys().filter(|f| t.dirs.contains(*f)).cloned().collect();
    for c in clash {
        t.files.remove(&c);
    }
    t
}

pub fn write_to_disk(t: &GenTree, root: &Path) {
    std::fs::create_dir_all(root).unwrap();
    for d in &t.dirs {
        std::fs::create_dir_all(root.join(d)).unwrap();
    }
    for (p, c) in t.files.iter().chain(&t.extras) {
        let path = root.join(p);
        if let Some(parent) = path.parent() {
            std::fs::create_dir_all(parent).unwrap();
        }
        std::fs::write(path, c).unwrap();
    }
}

#[derive(Clone, Debug)]
pub struct Form {
    pub label: String,
    pub kind: &'static str,
    /// does this form carry explicit directory members?
    pub dir_members: bool,
    pub detail: Value,
}

fn members(t: &GenTree, order: usize, with_dirs: bool, r: &mut Rng) -> Vec<(String, bool)> {
    let mut m: Vec<(String, bool)> = t.files.keys().chain(t.extras.keys()).map(|f| (f.clone(), false)).collect();
    if with_dirs {
        m.extend(t.dirs.iter().map(|d| (d.clone(), true)));
        // the directories of the unrepresentable files have members too
        let extra_dirs: BTreeSet<String> = t.extras.keys().filter_map(|f| f.rfind('/').map(|i| f[..i].to_string())).filter(|d| !t.dirs.contains(d)).collect();
        m.extend(extra_dirs.into_iter().map(|d| (d, true)));
    }
    match order {
        0 => m.sort(),
        1 => m.sort_by_key(|(p, d)| (*d, p.clone())), // files first, directories last
        _ => r.shuffle(&mut m),
    }
    m
}

pub fn tar_bytes(t: &GenTree, order: usize, with_dirs: bool, prefix: &str, r: &mut Rng) -> Vec<u8> {
    let mut b = tar::Builder::new(Vec::new());
    for (p, is_dir) in members(t, order, with_dirs, r) {
        let mut h = tar::Header::new_gnu();
        let mut name = format!("{prefix}{p}{}", if is_dir { "/" } else { "" });
        // the tar crate refuses to *write* names with '..'; other tools do write them: put the
        // bytes into the header ourselves (short names only)
        let raw_name = name.contains("..") && name.len() <= 100;
        if name.contains("..") && !raw_name {
            name = format!("{p}{}", if is_dir { "/" } else { "" });
        }
        if raw_name {
            let c: &[u8] = if is_dir { &[] } else { t.files.get(&p).or_else(|| t.extras.get(&p)).expect("member content") };
            h.set_entry_type(if is_dir { tar::EntryType::Directory } else { tar::EntryType::Regular });
            h.set_size(c.len() as u64);
            h.set_mode(if is_dir { 0o755 } else { 0o644 });
            h.as_old_mut().name[..name.len()].copy_from_slice(name.as_bytes());
            h.set_cksum();
            b.append(&h, c).unwrap();
            continue;
        }
        if is_dir {
            h.set_entry_type(tar::EntryType::Directory);
            h.set_size(0);
            h.set_mode(0o755);
            h.set_cksum();
            b.append_data(&mut h, &name, std::io::empty()).unwrap();
        } else {
            let c = t.files.get(&p).or_else(|| t.extras.get(&p)).expect("member content");
            h.set_entry_type(tar::EntryType::Regular);
            h.set_size(c.len() as u64);
            h.set_mode(0o644);
            h.set_cksum();
            b.append_data(&mut h, &name, &c[..]).unwrap();
        }
    }
    b.into_inner().unwrap()
}

pub fn zip_bytes(t: &GenTree, order: usize, with_dirs: bool, deflate: bool, r: &mut Rng) -> Vec<u8> {
    zip_bytes_prefixed(t, order, with_dirs, deflate, "", r)
}

pub fn zip_bytes_prefixed(t: &GenTree, order: usize, with_dirs: bool, deflate: bool, prefix: &str, r: &mut Rng) -> Vec<u8> {
    let mut z = zip::ZipWriter::new(std::io::Cursor::new(Vec::new()));
    let method = if deflate { zip::CompressionMethod::Deflated } else { zip::CompressionMethod::Stored };
    let opts = zip::write::FileOptions::default().compression_method(method);
    for (p, is_dir) in members(t, order, with_dirs, r) {
        if is_dir {
            z.add_directory(format!("{prefix}{p}"), opts).unwrap();
        } else {
            z.start_file(format!("{prefix}{p}"), opts).unwrap();
            z.write_all(t.files.get(&p).or_else(|| t.extras.get(&p)).expect("member content")).unwrap();
        }
    }
    z.finish().unwrap().into_inner()
}

const ORDERS: [&str; 3] = ["natural", "dirs-last", "shuffled"];

pub struct Materialised {
    pub dir: PathBuf,
    pub sources: Vec<(Form, Box<dyn Source + Send + Sync>)>,
    pub open_errors: Vec<(String, String)>,
}

/// Writes the tree in every form and opens every source on it.
pub fn materialise(t: &GenTree, r: &mut Rng, tag: &str, with_python: bool) -> Materialised {
    let dir = crate::util::scratch_dir(tag);
    // a dot in the name of the root directory itself is none of the ids' business
    let root = dir.join("root.v2");
    write_to_disk(t, &root);
    let mut sources: Vec<(Form, Box<dyn Source + Send + Sync>)> = vec![];
    let mut open_errors = vec![];
    match FileSystem::new(&root) {
        Ok(fs) => sources.push((
            Form { label: "filesystem".into(), kind: "filesystem", dir_members: true, detail: json!({}) },
            Box::new(fs),
        )),
        Err(e) => open_errors.push(("filesystem".into(), e.to_string())),
    }
    // the same tree with some files and one directory living elsewhere, reached through symbolic
    // links (the filesystem source follows links everywhere)
    #[cfg(not(miri))]
    {
        let root_l = dir.join("root-links");
        let store = dir.join("store");
        std::fs::create_dir_all(&root_l).unwrap();
        std::fs::create_dir_all(&store).unwrap();
        let mut k = 0usize;
        // one top-level directory of the tree becomes a link
        let linked_dir: Option<String> = t.dirs.iter().find(|d| !d.contains('/')).cloned().filter(|_| r.chance(2, 3));
        if let Some(d) = &linked_dir {
            let target = store.join("dir0");
            std::fs::create_dir_all(&target).unwrap();
            std::os::unix::fs::symlink(&target, root_l.join(d)).unwrap();
        }
        for d in &t.dirs {
            std::fs::create_dir_all(root_l.join(d)).unwrap();
        }
        for (p, c) in t.files.iter().chain(&t.extras) {
            let path = root_l.join(p);
            if let Some(parent) = path.parent() {
                std::fs::create_dir_all(parent).unwrap();
            }
            if r.chance(1, 3) {
                k += 1;
                let target = store.join(format!("f{k}"));
                std::fs::write(&target, c).unwrap();
                std::os::unix::fs::symlink(&target, &path).unwrap();
            } else {
                std::fs::write(&path, c).unwrap();
            }
        }
        match FileSystem::new(&root_l) {
            Ok(fs) => sources.push((
                Form { label: "filesystem:symlinks".into(), kind: "filesystem", dir_members: true,
                       detail: json!({"symbolic_links_to_files": k, "directory_behind_a_link": linked_dir}) },
                Box::new(fs),
            )),
            Err(e) => open_errors.push(("filesystem:symlinks".into(), e.to_string())),
        }
    }
    // in-process archives
    let mut n = 0;
    for (order, with_dirs, prefix) in [(0usize, true, ""), (1, true, ""), (2, true, "./"), (0, false, ""), (2, false, ""), (2, false, "pad/../")] {
        n += 1;
        if cfg!(miri) && n > 2 {
            continue;
        }
        let bytes = tar_bytes(t, order, with_dirs, prefix, r);
        let detail = json!({"writer": "tar crate", "order": ORDERS[order], "dir_members": with_dirs, "prefix": prefix});
        let label = format!("tar:rust{n}");
        let path = dir.join(format!("rust{n}.tar"));
        std::fs::write(&path, &bytes).unwrap();
        match Tar::from_bytes(bytes) {
            Ok(s) => sources.push((Form { label: format!("{label}:memory"), kind: "tar", dir_members: with_dirs, detail: detail.clone() }, Box::new(s))),
            Err(e) => open_errors.push((label.clone(), e.to_string())),
        }
        if cfg!(miri) {
            continue;
        }
        match Tar::open(&path) {
            Ok(s) => sources.push((Form { label: format!("{label}:file"), kind: "tar", dir_members: with_dirs, detail }, Box::new(s))),
            Err(e) => open_errors.push((label, e.to_string())),
        }
    }
    for (order, with_dirs, deflate, prefix) in [(0usize, true, false, ""), (1, true, true, ""), (2, false, true, ""), (0, false, false, ""), (2, false, false, "pad/../")] {
        n += 1;
        if cfg!(miri) && (deflate || with_dirs || !prefix.is_empty()) {
            continue;
        }
        let bytes = zip_bytes_prefixed(t, order, with_dirs, deflate, prefix, r);
        let detail = json!({"writer": "zip crate", "order": ORDERS[order], "dir_members": with_dirs, "prefix": prefix,
            "compression": if deflate { "deflated" } else { "stored" }});
        let label = format!("zip:rust{n}");
        let path = dir.join(format!("rust{n}.zip"));
        std::fs::write(&path, &bytes).unwrap();
        match Zip::from_bytes(bytes) {
            Ok(s) => sources.push((Form { label: format!("{label}:memory"), kind: "zip", dir_members: with_dirs, detail: detail.clone() }, Box::new(s))),
            Err(e) => open_errors.push((label.clone(), e.to_string())),
        }
        if cfg!(miri) {
            continue;
        }
        match Zip::open(&path) {
            Ok(s) => sources.push((Form { label: format!("{label}:file"), kind: "zip", dir_members: with_dirs, detail }, Box::new(s))),
            Err(e) => open_errors.push((label, e.to_string())),
        }
    }
    // independent writer: python3's tarfile / zipfile
    if with_python && !cfg!(miri) {
        let out = dir.join("py");
        let tool = std::env::var("VH_TOOLS").unwrap_or_else(|_| "/verif/tools".into());
        let st = std::process::Command::new("python3")
            .arg(format!("{tool}/mkarchives.py"))
            .arg(&root)
            .arg(&out)
            .arg(r.below(1 << 30).to_string())
            .status();
        match st {
            Ok(s) if s.success() => {
                let vars: Vec<Value> = serde_json::from_str(&std::fs::read_to_string(out.join("variants.json")).unwrap()).unwrap();
                for v in vars {
                    let file = out.join(v["file"].as_str().unwrap());
                    let with_dirs = v["dir_members"].as_bool().unwrap();
                    let label = format!("{}:{}", v["kind"].as_str().unwrap(), v["file"].as_str().unwrap());
                    let bytes = std::fs::read(&file).unwrap();
                    if v["kind"] == "tar" {
                        match Tar::open(&file) {
                            Ok(s) => sources.push((Form { label: format!("{label}:file"), kind: "tar", dir_members: with_dirs, detail: v.clone() }, Box::new(s))),
                            Err(e) => open_errors.push((label.clone(), e.to_string())),
                        }
                        match Tar::from_bytes(bytes) {
                            Ok(s) => sources.push((Form { label: format!("{label}:memory"), kind: "tar", dir_members: with_dirs, detail: v.clone() }, Box::new(s))),
                            Err(e) => open_errors.push((label, e.to_string())),
                        }
                    } else {
                        match Zip::open(&file) {
                            Ok(s) => sources.push((Form { label: format!("{label}:file"), kind: "zip", dir_members: with_dirs, detail: v.clone() }, Box::new(s))),
                            Err(e) => open_errors.push((label.clone(), e.to_string())),
                        }
                        match Zip::from_bytes(bytes) {
                            Ok(s) => sources.push((Form { label: format!("{label}:memory"), kind: "zip", dir_members: with_dirs, detail: v.clone() }, Box::new(s))),
                            Err(e) => open_errors.push((label, e.to_string())),
                        }
                    }
                }
            }
            other => open_errors.push(("python-archives".into(), format!("{other:?}"))),
        }
    }
    Materialised { dir, sources, open_errors }
}

impl Drop for Materialised {
    fn drop(&mut self) {
        self.sources.clear();
        let _ = std::fs::remove_dir_all(&self.dir);
    }
}
