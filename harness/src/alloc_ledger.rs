//! Accounting global allocator (cargo feature `alloc_ledger`).
//!
//! Each block carries a 16-byte header (size, align) placed right before the
//! pointer handed out, so `dealloc`/`realloc` can compare the layout they are
//! given with the layout the block was allocated with — glibc would not
//! notice a mismatch.  Live blocks / bytes are counted so a bracketed region
//! can be checked for leaks.  Off in ASan/TSan/Miri builds.

use std::alloc::{GlobalAlloc, Layout, System};
use std::sync::atomic::{AtomicI64, AtomicU64, AtomicUsize, Ordering::SeqCst};

pub struct Accounting;

static LIVE_BLOCKS: AtomicI64 = AtomicI64::new(0);
static LIVE_BYTES: AtomicI64 = AtomicI64::new(0);
static TOTAL_ALLOCS: AtomicU64 = AtomicU64::new(0);
static MISMATCHES: AtomicU64 = AtomicU64::new(0);
// first few mismatches: (recorded size, recorded align, given size, given align)
#[allow(clippy::declare_interior_mutable_const)]
const Z: AtomicUsize = AtomicUsize::new(0);
static MISMATCH_LOG: [AtomicUsize; 32] = [Z; 32];

const MAGIC: usize = 0x5AFE_A110_C8ED_0000;

#[inline]
fn hdr(align: usize) -> usize {
    align.max(16)
}

unsafe impl GlobalAlloc for Accounting {
    unsafe fn alloc(&self, layout: Layout) -> *mut u8 {
        let h = hdr(layout.align());
        let total = match layout.size().checked_add(h) {
            Some(t) => t,
            None => return std::ptr::null_mut(),
        };
        let inner = match Layout::from_size_align(total, h) {
            Ok(l) => l,
            Err(_) => return std::ptr::null_mut(),
        };
        let base = System.alloc(inner);
        if base.is_null() {
            return base;
        }
        let p = base.add(h);
        (p.sub(16) as *mut usize).write(layout.size());
        (p.sub(8) as *mut usize).write(layout.align() ^ MAGIC);
        LIVE_BLOCKS.fetch_add(1, SeqCst);
        LIVE_BYTES.fetch_add(layout.size() as i64, SeqCst);
        TOTAL_ALLOCS.fetch_add(1, SeqCst);
        p
    }

    unsafe fn dealloc(&self, p: *mut u8, layout: Layout) {
        let size = (p.sub(16) as *const usize).read();
        let align = (p.sub(8) as *const usize).read() ^ MAGIC;
        if size != layout.size() || align != layout.align() {
            let n = MISMATCHES.fetch_add(1, SeqCst) as usize;
            if n < MISMATCH_LOG.len() / 4 {
                MISMATCH_LOG[4 * n].store(size, SeqCst);
                MISMATCH_LOG[4 * n + 1].store(align, SeqCst);
                MISMATCH_LOG[4 * n + 2].store(layout.size(), SeqCst);
                MISMATCH_LOG[4 * n + 3].store(layout.align(), SeqCst);
            }
        }
        // Free with the *recorded* layout so the harness itself stays sound.
        // (If the header is garbage the align will not be a power of two; in
        // that case fall back to the given layout.)
        let (size, align) = if align.is_power_of_two() && align <= (1 << 20) {
            (size, align)
        } else {
            (layout.size(), layout.align())
        };
        let h = hdr(align);
        LIVE_BLOCKS.fetch_sub(1, SeqCst);
        LIVE_BYTES.fetch_sub(size as i64, SeqCst);
        System.dealloc(p.sub(h), Layout::from_size_align_unchecked(size + h, h));
    }

    unsafe fn realloc(&self, p: *mut u8, layout: Layout, new_size: usize) -> *mut u8 {
        let new_layout = Layout::from_size_align_unchecked(new_size, layout.align());
        let q = self.alloc(new_layout);
        if !q.is_null() {
            std::ptr::copy_nonoverlapping(p, q, layout.size().min(new_size));
            self.dealloc(p, layout);
        }
        q
    }
}

// The `#[global_allocator]` static lives in the binary crate (src/bin/vh.rs).

pub const ENABLED: bool = cfg!(feature = "alloc_ledger");

#[derive(Clone, Copy, Debug, PartialEq, Eq)]
pub struct Snapshot {
    pub blocks: i64,
    pub bytes: i64,
    pub total: u64,
    pub mismatches: u64,
}

pub fn snapshot() -> Snapshot {
    Snapshot {
        blocks: LIVE_BLOCKS.load(SeqCst),
        bytes: LIVE_BYTES.load(SeqCst),
        total: TOTAL_ALLOCS.load(SeqCst),
        mismatches: MISMATCHES.load(SeqCst),
    }
}

pub fn mismatch_log() -> Vec<[usize; 4]> {
    let n = (MISMATCHES.load(SeqCst) as usize).min(MISMATCH_LOG.len() / 4);
    (0..n)
        .map(|i| std::array::from_fn(|j| MISMATCH_LOG[4 * i + j].load(SeqCst)))
        .collect()
}
