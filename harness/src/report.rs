//! Command-line arguments and the per-run result file.
//!
//! Exit status of `vh`: 0 = property held on everything explored and all
//! coverage floors were met; 1 = at least one violation (positive evidence);
//! 2 = inconclusive (floor missed, watchdog); anything else = harness crash.

use serde_json::{json, Map, Value};
use std::collections::{BTreeMap, BTreeSet, HashSet};
use std::time::Instant;

#[derive(Clone, Debug)]
pub struct Args {
    pub prop: String,
    pub tier: String,
    pub seed: u64,
    pub out: Option<String>,
    pub replay: Option<String>,
    pub shard: usize,
    pub nshards: usize,
    pub build: String,
    /// free-form sub-mode (e.g. "child:deadlock-cycle")
    pub mode: Option<String>,
    /// scale factor for workload sizes (1.0 = nominal for the tier)
    pub scale: f64,
    pub extra: Vec<String>,
}

impl Args {
    pub fn parse(argv: &[String]) -> Args {
        let mut a = Args {
            prop: String::new(),
            tier: "quick".into(),
            seed: 1,
            out: None,
            replay: None,
            shard: 0,
            nshards: 1,
            build: option_env!("VH_BUILD").unwrap_or("v0").to_string(),
            mode: None,
            scale: 1.0,
            extra: vec![],
        };
        let mut it = argv.iter();
        while let Some(s) = it.next() {
            match s.as_str() {
                "--tier" => a.tier = it.next().expect("--tier").clone(),
                "--seed" => a.seed = it.next().expect("--seed").parse().expect("seed"),
                "--out" => a.out = Some(it.next().expect("--out").clone()),
                "--replay" => a.replay = Some(it.next().expect("--replay").clone()),
                "--build" => a.build = it.next().expect("--build").clone(),
                "--mode" => a.mode = Some(it.next().expect("--mode").clone()),
                "--scale" => a.scale = it.next().expect("--scale").parse().expect("scale"),
                "--shard" => {
                    let v = it.next().expect("--shard");
                    let (i, n) = v.split_once('/').expect("i/n");
                    a.shard = i.parse().unwrap();
                    a.nshards = n.parse().unwrap();
                }
                other if a.prop.is_empty() && !other.starts_with('-') => a.prop = other.to_string(),
                other => a.extra.push(other.to_string()),
            }
        }
        a
    }

    pub fn thorough(&self) -> bool {
        self.tier == "thorough"
    }

    /// `q` in quick tier, `t` in thorough tier, scaled, at least 1.
    pub fn n(&self, q: usize, t: usize) -> usize {
        let base = if self.thorough() { t } else { q } as f64;
        ((base * self.scale) as usize).max(1)
    }

    pub fn miri(&self) -> bool {
        cfg!(miri)
    }
}

#[derive(Clone, Debug)]
pub struct Violation {
    pub clause: String,
    pub signature: String,
    pub detail: Value,
    pub scenario: Value,
}

pub struct Report {
    pub args: Args,
    start: Instant,
    pub evaluations: u64,
    distinct: HashSet<u64>,
    interleavings: HashSet<u64>,
    pub counters: BTreeMap<String, u64>,
    pub sets: BTreeMap<String, BTreeSet<String>>,
    pub samples: Vec<Value>,
    pub max_samples: usize,
    pub violations: Vec<Violation>,
    /// (name, have, need, aggregation over shards: "sum" | "each" | "set:<name>")
    pub floors: Vec<(String, u64, u64, String)>,
    pub inconclusive: Vec<String>,
    pub notes: Vec<String>,
    pub rule: String,
    pub exhaustive: Option<bool>,
    pub extra: Map<String, Value>,
}

impl Report {
    pub fn new(args: &Args) -> Report {
        Report {
            args: args.clone(),
            start: Instant::now(),
            evaluations: 0,
            distinct: HashSet::new(),
            interleavings: HashSet::new(),
            counters: BTreeMap::new(),
            sets: BTreeMap::new(),
            samples: vec![],
            max_samples: 4,
            violations: vec![],
            floors: vec![],
            inconclusive: vec![],
            notes: vec![],
            rule: String::new(),
            exhaustive: None,
            extra: Map::new(),
        }
    }

    pub fn eval(&mut self) {
        self.evaluations += 1;
    }

    /// Registers a distinct, non-trivial case by its hash.
    pub fn nontrivial(&mut self, h: u64) {
        self.distinct.insert(h);
    }

    pub fn interleaving(&mut self, h: u64) {
        self.interleavings.insert(h);
    }

    pub fn n_interleavings(&self) -> u64 {
        self.interleavings.len() as u64
    }

    pub fn n_distinct(&self) -> u64 {
        self.distinct.len() as u64
    }

    pub fn count(&mut self, k: &str, n: u64) {
        *self.counters.entry(k.to_string()).or_insert(0) += n;
    }

    pub fn set_max(&mut self, k: &str, n: u64) {
        let e = self.counters.entry(k.to_string()).or_insert(0);
        if n > *e {
            *e = n;
        }
    }

    pub fn get(&self, k: &str) -> u64 {
        self.counters.get(k).copied().unwrap_or(0)
    }

    pub fn seen(&mut self, set: &str, item: &str) {
        self.sets
            .entry(set.to_string())
            .or_default()
            .insert(item.to_string());
    }

    pub fn n_seen(&self, set: &str) -> u64 {
        self.sets.get(set).map_or(0, |s| s.len() as u64)
    }

    pub fn sample(&mut self, v: Value) {
        if self.samples.len() < self.max_samples {
            self.samples.push(v);
        }
    }

    pub fn violation(&mut self, clause: &str, signature: &str, detail: Value, scenario: Value) {
        // keep the report bounded: at most 3 violations with full detail per
        // signature (so that rare signatures are not crowded out), 150 in total
        let same = self.violations.iter().filter(|v| v.signature == signature).count();
        self.count(&format!("violations[{signature}]"), 1);
        if same < 3 && self.violations.len() < 150 {
            self.violations.push(Violation {
                clause: clause.to_string(),
                signature: signature.to_string(),
                detail,
                scenario,
            });
        }
        self.count("violations_total", 1);
    }

    /// Declares a coverage floor; a run below it is inconclusive, not a pass.
    /// `have` is summed over the shards of a build before being compared.
    pub fn floor(&mut self, name: &str, have: u64, need: u64) {
        self.floors.push((name.to_string(), have, need, "sum".into()));
    }

    /// Must hold in every process (ratios, percentages).
    pub fn floor_each(&mut self, name: &str, have: u64, need: u64) {
        self.floors.push((name.to_string(), have, need, "each".into()));
    }

    /// Size of the named `seen` set; the sets of all shards are united first.
    pub fn floor_set(&mut self, set: &str, need: u64) {
        let have = self.n_seen(set);
        self.floors.push((set.to_string(), have, need, format!("set:{set}")));
    }

    pub fn inconclusive(&mut self, why: &str) {
        self.inconclusive.push(why.to_string());
    }

    pub fn note(&mut self, s: &str) {
        if self.notes.len() < 40 {
            self.notes.push(s.to_string());
        }
    }

    pub fn elapsed_s(&self) -> f64 {
        self.start.elapsed().as_secs_f64()
    }

    pub fn to_json(&self) -> Value {
        let mut hashes: Vec<u64> = self.distinct.iter().copied().collect();
        hashes.sort_unstable();
        let capped = hashes.len() > 20_000;
        hashes.truncate(20_000);
        let floors: Vec<Value> = self
            .floors
            .iter()
            .map(|(n, h, need, agg)| json!({"name": n, "have": h, "need": need, "met": h >= need, "agg": agg}))
            .collect();
        let viols: Vec<Value> = self
            .violations
            .iter()
            .map(|v| {
                json!({"clause": v.clause, "signature": v.signature, "detail": v.detail, "scenario": v.scenario})
            })
            .collect();
        json!({
            "property": self.args.prop,
            "tier": self.args.tier,
            "seed": self.args.seed,
            "build": self.args.build,
            "shard": format!("{}/{}", self.args.shard, self.args.nshards),
            "mode": self.args.mode,
            "wall_s": self.elapsed_s(),
            "evaluations": self.evaluations,
            "distinct_nontrivial": self.distinct.len(),
            "distinct_hashes": hashes.iter().map(|h| format!("{h:016x}")).collect::<Vec<_>>(),
            "distinct_hashes_capped": capped,
            "interleavings": self.interleavings.len(),
            "rule": self.rule,
            "exhaustive": self.exhaustive,
            "counters": self.counters,
            "sets": self.sets,
            "samples": self.samples,
            "violations": viols,
            "violations_total": self.get("violations_total"),
            "floors": floors,
            "inconclusive": self.inconclusive,
            "notes": self.notes,
            "extra": self.extra,
        })
    }

    pub fn exit_code(&self) -> i32 {
        if !self.violations.is_empty() {
            1
        } else if !self.inconclusive.is_empty()
            || self.floors.iter().any(|(_, have, need, agg)| have < need && (self.args.nshards == 1 || agg == "each"))
        {
            2
        } else {
            0
        }
    }

    /// Writes the result file (or prints it) without terminating.
    pub fn write(&self) {
        let v = self.to_json();
        let text = serde_json::to_string_pretty(&v).unwrap();
        match &self.args.out {
            Some(p) => std::fs::write(p, text).expect("write result"),
            None => println!("{text}"),
        }
    }

    /// Writes the result file and terminates the process.
    pub fn finish(self) -> ! {
        let code = self.exit_code();
        let v = self.to_json();
        let text = serde_json::to_string_pretty(&v).unwrap();
        match &self.args.out {
            Some(p) => std::fs::write(p, text).expect("write result"),
            None => println!("{text}"),
        }
        eprintln!(
            "[vh] {} {} build={} shard={}/{} evals={} distinct={} violations={} exit={}",
            self.args.prop,
            self.args.tier,
            self.args.build,
            self.args.shard,
            self.args.nshards,
            self.evaluations,
            self.distinct.len(),
            self.violations.len(),
            code
        );
        std::process::exit(code)
    }
}
