//! One small deterministic PRNG (xorshift64*), sub-seedable.

#[derive(Clone, Debug)]
pub struct Rng(u64);

impl Rng {
    pub fn new(seed: u64) -> Self {
        // splitmix to avoid the all-zero state and decorrelate nearby seeds
        let mut z = seed.wrapping_add(0x9E37_79B9_7F4A_7C15);
        z = (z ^ (z >> 30)).wrapping_mul(0xBF58_476D_1CE4_E5B9);
        z = (z ^ (z >> 27)).wrapping_mul(0x94D0_49BB_1331_11EB);
        z ^= z >> 31;
        Rng(if z == 0 { 0x1234_5678_9ABC_DEF1 } else { z })
    }

    /// Derives an independent generator (e.g. per shard / per round).
    pub fn sub(&self, salt: u64) -> Rng {
        Rng::new(self.0 ^ salt.wrapping_mul(0xA24B_AED4_963E_E407))
    }

    pub fn next(&mut self) -> u64 {
        let mut x = self.0;
        x ^= x >> 12;
        x ^= x << 25;
        x ^= x >> 27;
        self.0 = x;
        x.wrapping_mul(0x2545_F491_4F6C_DD1D)
    }

    /// Uniform in `0..n` (n > 0).
    pub fn below(&mut self, n: usize) -> usize {
        debug_assert!(n > 0);
        (self.next() % n as u64) as usize
    }

    /// Uniform in `lo..=hi`.
    pub fn range(&mut self, lo: usize, hi: usize) -> usize {
        lo + self.below(hi - lo + 1)
    }

    pub fn chance(&mut self, num: u32, den: u32) -> bool {
        (self.next() % den as u64) < num as u64
    }

    pub fn pick<'a, T>(&mut self, xs: &'a [T]) -> &'a T {
        &xs[self.below(xs.len())]
    }

    pub fn shuffle<T>(&mut self, xs: &mut [T]) {
        for i in (1..xs.len()).rev() {
            let j = self.below(i + 1);
            xs.swap(i, j);
        }
    }

    pub fn bytes(&mut self, n: usize) -> Vec<u8> {
        (0..n).map(|_| self.next() as u8).collect()
    }
}

/// FNV-1a 64 over bytes; used for history / interleaving hashes.
pub fn fnv(bytes: &[u8]) -> u64 {
    let mut h: u64 = 0xcbf2_9ce4_8422_2325;
    for b in bytes {
        h ^= *b as u64;
        h = h.wrapping_mul(0x0000_0100_0000_01B3);
    }
    h
}

pub fn fnv_str(s: &str) -> u64 {
    fnv(s.as_bytes())
}

pub fn mix(a: u64, b: u64) -> u64 {
    let mut h = a ^ b.wrapping_mul(0x9E37_79B9_7F4A_7C15);
    h = (h ^ (h >> 32)).wrapping_mul(0xD6E8_FEB8_6659_FD93);
    h ^ (h >> 29)
}
