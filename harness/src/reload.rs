//! Lock-step world with hot-reloading passes (C05, C06, C09, C10, C14).
//!
//! The world owns up to a few real caches over `Mem` sources and the reference
//! model.  Steps are applied to both; after every pass the observable state of
//! every cached asset is compared with the model's expectations.  Which
//! clauses are judged (and under which property id) is chosen by the caller.

use crate::assets::*;
use crate::ledger;
use crate::mem::{Hot, Mem, Op as MemOp};
use crate::model::{Dep, Key, Model, PassResult};
use crate::scen::{expect_outcome, rid_num, same_error, Fe, Outcome, RealCache};
use crate::Report;
use assets_manager::source::OwnedDirEntry;
use assets_manager::{AssetCache, ReloadWatcher, UntypedHandle};
use serde_json::{json, Value};
use std::collections::{BTreeMap, BTreeSet};

#[derive(Clone, Debug, PartialEq, Eq, Hash)]
pub enum Step {
    Load { c: usize, ty: Ty, id: String },
    Owned { c: usize, ty: Ty, id: String },
    GetOrInsert { c: usize, ty: Ty, id: String, n: u64 },
    Remove { c: usize, ty: Ty, id: String },
    Take { c: usize, ty: Ty, id: String },
    Clear { c: usize },
    Write { c: usize, id: String, ext: String, content: String },
    Delete { c: usize, id: String, ext: String },
    /// `(is_dir, id, ext)`; one message (`send_multiple`) when `batched`
    Notify { c: usize, entries: Vec<(bool, String, String)>, batched: bool },
    /// send the notification now but judge it at the next `Pass` (in enhanced
    /// mode too: the reloader works on it while the harness goes on)
    NotifyAsync { c: usize, entries: Vec<(bool, String, String)> },
    Pass { c: usize },
}

impl Step {
    pub fn render(&self) -> String {
        match self {
            Step::Load { c, ty, id } => format!("c{c}.load {} {id:?}", ty.tag()),
            Step::Owned { c, ty, id } => format!("c{c}.load_owned {} {id:?}", ty.tag()),
            Step::GetOrInsert { c, ty, id, n } => format!("c{c}.get_or_insert {} {id:?} {n}", ty.tag()),
            Step::Remove { c, ty, id } => format!("c{c}.remove {} {id:?}", ty.tag()),
            Step::Take { c, ty, id } => format!("c{c}.take {} {id:?}", ty.tag()),
            Step::Clear { c } => format!("c{c}.clear"),
            Step::Write { c, id, ext, content } => format!("c{c}: write {id}.{ext} = {content:?}"),
            Step::Delete { c, id, ext } => format!("c{c}: delete {id}.{ext}"),
            Step::Notify { c, entries, batched } => format!(
                "c{c}: notify{} {}",
                if *batched { "(batched)" } else { "" },
                entries
                    .iter()
                    .map(|(d, i, x)| if *d { format!("dir:{i}") } else { format!("{i}.{x}") })
                    .collect::<Vec<_>>()
                    .join(",")
            ),
            Step::NotifyAsync { c, entries } => format!(
                "c{c}: notify(not awaited) {}",
                entries
                    .iter()
                    .map(|(d, i, x)| if *d { format!("dir:{i}") } else { format!("{i}.{x}") })
                    .collect::<Vec<_>>()
                    .join(",")
            ),
            Step::Pass { c } => format!("c{c}: barrier + hot_reload"),
        }
    }
}

#[derive(Clone, Copy, Debug)]
pub struct Judge {
    /// property id used in signatures
    pub prop: &'static str,
    /// C05: values equal the fixpoint after a pass
    pub values: bool,
    /// C06: reload-id deltas, unaffected assets untouched, watcher answers, reads
    pub precision: bool,
    /// C14: the set of assets whose id moved is exactly the model's
    pub attribution: bool,
    /// C10: protected entries never change
    pub protected: bool,
    /// C09/C02 style: results of API calls equal the model's
    pub results: bool,
    /// C13: after every step exactly the tokens of the cached entries are alive
    pub ledger: bool,
    /// accept the known order-sensitivity (rewired to an asset pending in the
    /// same batch) only as a specially signed violation, never silently
    pub classify_rewire: bool,
}

impl Judge {
    pub const fn none(prop: &'static str) -> Judge {
        Judge {
            prop,
            values: false,
            precision: false,
            attribution: false,
            protected: false,
            results: false,
            ledger: false,
            classify_rewire: true,
        }
    }
}

struct Tracked {
    h: *const UntypedHandle,
    watcher: ReloadWatcher<'static>,
    last_rid: u64,
    /// pointer / description from `Handle::get()` for NotHotReloaded types
    get_ref: Option<(usize, V)>,
    token: Option<usize>,
    value: V,
}

#[derive(Clone, Copy, Debug, PartialEq, Eq)]
pub enum CacheKind {
    /// `with_source` over a source that supports hot-reloading
    Hot,
    /// `without_hot_reloading`
    Cold,
    /// `with_source` over a source whose `make_source` returns `None`
    NoSupport,
    /// `with_source` over a source whose `configure_hot_reloading` fails
    ConfigureFails,
}

pub struct WorldCfg {
    pub caches: Vec<CacheKind>,
    pub static_mode: bool,
    pub content_mode: u8,
}

pub struct World {
    pub mems: Vec<Mem>,
    pub real: Vec<RealCache>,
    pub model: Model,
    pub static_mode: bool,
    pending: Vec<Vec<OwnedDirEntry>>,
    tracked: BTreeMap<(usize, Key), Tracked>,
    pub steps_log: Vec<String>,
    pub mark: usize,
    pub passes: u64,
    pub passes_multi: u64,
    pub last_pass: Option<PassResult>,
    pub aborted: Option<String>,
    /// free-form identification of the case (history index, shard, ...) copied into scenarios
    pub tag: Value,
    /// set while source / loader faults are installed (C09)
    pub faults_active: bool,
    async_t0: Option<u64>,
    double_drops_at_start: u64,
    /// (cache, key, reload id, reloaded_global) of entries first seen since the last drain
    fresh_entries: Vec<(usize, Key, u64, bool)>,
}

#[derive(Default, Debug, Clone)]
pub struct PassStats {
    pub affected: usize,
    pub reloaded: usize,
    pub failed: usize,
    pub order_sensitive: usize,
    pub reader_reads: usize,
}

impl World {
    pub fn new(cfg: &WorldCfg) -> World {
        let mut mems = vec![];
        let mut real = vec![];
        let mut mc = vec![];
        let mark = ledger::mark();
        for (i, kind) in cfg.caches.iter().enumerate() {
            let hot = *kind == CacheKind::Hot;
            let mem = Mem::new(
                &format!("w{i}"),
                match kind {
                    CacheKind::Hot | CacheKind::Cold => Hot::Yes,
                    CacheKind::NoSupport => Hot::No,
                    CacheKind::ConfigureFails => Hot::ConfigureFails,
                },
            );
            mem.set_content_mode(cfg.content_mode);
            mems.push(mem.clone());
            let cache = if *kind == CacheKind::Cold {
                AssetCache::without_hot_reloading(mem)
            } else {
                AssetCache::with_source(mem)
            };
            if cfg.static_mode && hot {
                let leaked: &'static AssetCache<Mem> = Box::leak(Box::new(cache));
                leaked.enhance_hot_reloading();
                real.push(RealCache::Static(leaked));
            } else {
                real.push(RealCache::Shared(cache));
            }
            mc.push((hot, Default::default()));
        }
        let w = World {
            mems,
            real,
            model: Model::new(mc),
            static_mode: cfg.static_mode,
            pending: vec![vec![]; cfg.caches.len()],
            tracked: BTreeMap::new(),
            steps_log: vec![],
            mark,
            passes: 0,
            passes_multi: 0,
            last_pass: None,
            aborted: None,
            tag: Value::Null,
            faults_active: false,
            async_t0: None,
            double_drops_at_start: ledger::double_drops(),
            fresh_entries: vec![],
        };
        w.register();
        w
    }

    /// Makes the caches reachable from recipes (`on <slot> ...`).
    pub fn register(&self) {
        for (i, r) in self.real.iter().enumerate() {
            if let Some(c) = r.shared() {
                CTX.register_cache(i, c);
            }
        }
    }

    pub fn scenario(&self) -> Value {
        json!({"static_mode": self.static_mode, "caches": self.real.iter().map(|r| r.is_hot()).collect::<Vec<_>>(),
               "case": self.tag, "steps": self.steps_log})
    }

    /// Writes a file in both the real source and the model (no notification).
    pub fn seed_file(&mut self, c: usize, id: &str, ext: &str, content: &str) {
        self.steps_log.push(format!("c{c}: seed {id}.{ext} = {content:?}"));
        self.mems[c].write(id, ext, content.as_bytes());
        self.model.write(c, id, ext, content.as_bytes());
    }

    fn track(&mut self, c: usize, key: &Key) {
        let k = (c, key.clone());
        if self.tracked.contains_key(&k) {
            return;
        }
        let Some(h) = self.real[c].untyped(key.0, &key.1) else {
            return;
        };
        // SAFETY: the handle lives as long as the entry stays in the cache; the
        // world forgets tracked handles before any removal and before the
        // caches are dropped (`Drop for World`).
        let hs: &'static UntypedHandle = unsafe { &*(h as *const UntypedHandle) };
        let obs = self.real[c].get_cached(Fe::Direct, key.0, &key.1).ok().flatten();
        let get_ref = self.real[c].get_ref(key.0, &key.1).and_then(|o| o.ok());
        // Baseline for `reloaded_global`: an entry created *during a pass* may
        // already have been rewritten once in that same pass (created by one
        // reload, then refreshed by its own turn); consume that answer here.
        // Entries created by an API call are reported in `fresh_entries`.
        let first_global = hs.reloaded_global();
        self.fresh_entries.push((c, key.clone(), rid_num(hs.last_reload_id()), first_global));
        self.tracked.insert(
            k,
            Tracked {
                h: hs,
                watcher: hs.reload_watcher(),
                last_rid: rid_num(hs.last_reload_id()),
                get_ref,
                token: obs.as_ref().and_then(|o| o.token),
                value: obs.map(|o| o.v).unwrap_or(V::Bool(false)),
            },
        );
    }

    /// After an API call (not a pass): every entry that just appeared must
    /// start at `ReloadId::NEVER` with `reloaded_global() == false`.
    fn check_fresh(&mut self, rep: &mut Report, j: &Judge) {
        let fresh = std::mem::take(&mut self.fresh_entries);
        if j.precision {
            for (c, key, rid, global) in fresh {
                rep.count("fresh_entries_checked", 1);
                if rid != 0 || global {
                    self.bad(rep, j, "id-not-never-at-creation", json!({"cache": c, "key": format!("{} {:?}", key.0.tag(), key.1), "reload_id": rid, "reloaded_global": global}));
                }
            }
        }
    }

    fn track_all(&mut self) {
        for c in 0..self.real.len() {
            let keys: Vec<Key> = self.model.caches[c].entries.keys().cloned().collect();
            for k in keys {
                self.track(c, &k);
            }
        }
    }

    fn untrack(&mut self, c: usize, key: Option<&Key>) {
        match key {
            Some(k) => {
                self.tracked.remove(&(c, k.clone()));
            }
            None => self.tracked.retain(|(cc, _), _| *cc != c),
        }
    }

    fn bad(&self, rep: &mut Report, j: &Judge, clause: &str, detail: Value) {
        let mut scen = self.scenario();
        scen["failing_step"] = json!(self.steps_log.len());
        rep.violation(clause, &format!("{}/{}", j.prop, clause), detail, scen);
    }

    /// Applies one step to the real caches and to the model and judges it.
    pub fn apply(&mut self, step: &Step, rep: &mut Report, j: &Judge) -> PassStats {
        let st = self.apply_inner(step, rep, j);
        self.ledger_check(rep, j);
        st
    }

    fn apply_inner(&mut self, step: &Step, rep: &mut Report, j: &Judge) -> PassStats {
        self.steps_log.push(step.render());
        let mut stats = PassStats::default();
        if self.aborted.is_some() {
            return stats;
        }
        match step {
            Step::Load { c, ty, id } => {
                let got = self.real[*c].load(Fe::Direct, *ty, id);
                let exp = expect_outcome(self.model.load(*c, *ty, id, &mut None));
                if j.results {
                    let ok = match (&got, &exp) {
                        (Outcome::Ok(h), Outcome::Ok(v)) => h.v == *v,
                        (Outcome::Err(a), Outcome::Err(b)) => same_error(a, b),
                        (Outcome::Panic(_), Outcome::Panic(_)) => true,
                        _ => false,
                    };
                    if !ok {
                        self.bad(rep, j, "load-result", json!({"got": format!("{got:?}"), "expected": format!("{exp:?}")}));
                    }
                }
                self.track_all();
                self.check_fresh(rep, j);
            }
            Step::Owned { c, ty, id } => {
                let got = self.real[*c].load_owned(Fe::Direct, *ty, id);
                let exp = expect_outcome(self.model.load_owned(*c, *ty, id, &mut None));
                if j.results {
                    let ok = match (&got, &exp) {
                        (Outcome::Ok((v, _)), Outcome::Ok(x)) => v == x,
                        (Outcome::Err(a), Outcome::Err(b)) => same_error(a, b),
                        (Outcome::Panic(_), Outcome::Panic(_)) => true,
                        _ => false,
                    };
                    if !ok {
                        self.bad(rep, j, "load-owned-result", json!({"got": format!("{got:?}"), "expected": format!("{exp:?}")}));
                    }
                }
                self.track_all();
                self.check_fresh(rep, j);
            }
            Step::GetOrInsert { c, ty, id, n } => {
                let got = self.real[*c].get_or_insert(Fe::Direct, *ty, id, *n);
                let (v, _) = self.model.get_or_insert(*c, *ty, id, *n);
                if j.results {
                    match &got {
                        Outcome::Ok((h, _)) if h.v == v => {}
                        other => self.bad(rep, j, "get-or-insert-result", json!({"got": format!("{other:?}"), "expected": format!("{v:?}")})),
                    }
                }
                self.track_all();
            }
            Step::Remove { c, ty, id } => {
                self.untrack(*c, Some(&(*ty, id.clone())));
                let got = self.real[*c].remove(*ty, id);
                let exp = self.model.remove(*c, *ty, id);
                if j.results && got != Outcome::Ok(exp) {
                    self.bad(rep, j, "remove-result", json!({"got": format!("{got:?}"), "expected": exp}));
                }
            }
            Step::Take { c, ty, id } => {
                self.untrack(*c, Some(&(*ty, id.clone())));
                let got = self.real[*c].take(*ty, id);
                let exp = self.model.take(*c, *ty, id);
                if j.results {
                    let ok = match (&got, &exp) {
                        (Outcome::Ok(Some((v, _))), Some(x)) => v == x,
                        (Outcome::Ok(None), None) => true,
                        _ => false,
                    };
                    if !ok {
                        self.bad(rep, j, "take-result", json!({"got": format!("{got:?}"), "expected": format!("{exp:?}")}));
                    }
                }
            }
            Step::Clear { c } => {
                self.untrack(*c, None);
                self.real[*c].clear();
                self.model.clear(*c);
            }
            Step::Write { c, id, ext, content } => {
                self.mems[*c].write(id, ext, content.as_bytes());
                self.model.write(*c, id, ext, content.as_bytes());
            }
            Step::Delete { c, id, ext } => {
                self.mems[*c].remove_file(id, ext);
                self.model.remove_file(*c, id, ext);
            }
            Step::Notify { c, entries, batched } => {
                let es: Vec<OwnedDirEntry> = entries
                    .iter()
                    .map(|(d, i, x)| {
                        if *d {
                            OwnedDirEntry::Directory(i.as_str().into())
                        } else {
                            OwnedDirEntry::File(i.as_str().into(), x.as_str().into())
                        }
                    })
                    .collect();
                if !self.real[*c].is_hot() {
                    // A cache without reloader listens to nobody. A source whose configuration was
                    // refused may still hold the sender it was given (`Hot::ConfigureFails`): it
                    // keeps notifying, into the void.
                    if self.mems[*c].has_sender() {
                        let _ = self.mems[*c].notify_batch(es);
                    }
                    return stats;
                }
                let messages: Vec<Vec<OwnedDirEntry>> = if *batched {
                    vec![es]
                } else {
                    es.into_iter().map(|e| vec![e]).collect()
                };
                for m in messages {
                    if m.is_empty() {
                        continue;
                    }
                    if self.aborted.is_some() {
                        break;
                    }
                    // in enhanced mode the pass starts as soon as the message is sent
                    let pre = if self.static_mode {
                        let _ = self.mems[*c].take_log();
                        Some(crate::mem::tick())
                    } else {
                        None
                    };
                    if m.len() == 1 && !*batched {
                        self.mems[*c].notify(m[0].clone());
                    } else {
                        let before = self.mems[*c].miscounted();
                        self.mems[*c].notify_batch(m.clone());
                        if self.mems[*c].miscounted() != before {
                            // the notification was (partly) dropped on the floor by the sender itself
                            self.bad(rep, j, "notification-lost:send_multiple-reports-a-wrong-count",
                                json!({"entries_given": m.len(), "how": "iterator without an upper size bound (every other batch)"}));
                            self.aborted = Some("a batched notification was lost".into());
                            break;
                        }
                    }
                    if self.static_mode {
                        // every message is its own pass in enhanced mode
                        self.pending[*c] = m;
                        stats = self.pass(*c, rep, j, pre);
                    } else {
                        self.pending[*c].extend(m);
                    }
                }
            }
            Step::NotifyAsync { c, entries } => {
                if self.real[*c].is_hot() {
                    if self.async_t0.is_none() {
                        let _ = self.mems[*c].take_log();
                        self.async_t0 = Some(crate::mem::tick());
                    }
                    for (d, i, x) in entries {
                        let e = if *d {
                            OwnedDirEntry::Directory(i.as_str().into())
                        } else {
                            OwnedDirEntry::File(i.as_str().into(), x.as_str().into())
                        };
                        self.mems[*c].notify(e.clone());
                        self.pending[*c].push(e);
                    }
                }
            }
            Step::Pass { c } => {
                if !self.static_mode || !self.pending[*c].is_empty() {
                    let pre = self.async_t0.take();
                    stats = self.pass(*c, rep, j, pre);
                }
            }
        }
        stats
    }

    fn pass(&mut self, c: usize, rep: &mut Report, j: &Judge, pre: Option<u64>) -> PassStats {
        let mut stats = PassStats::default();
        if !self.real[c].is_hot() {
            // nothing can have been sent; `hot_reload` must be a no-op and the
            // judgement below (with an empty affected set) still runs
            self.pending[c].clear();
        }
        self.track_all();
        let notified = std::mem::take(&mut self.pending[c]);
        // --- real side
        let t0 = match pre {
            Some(t) => t,
            None => {
                let _ = self.mems[c].take_log();
                crate::mem::tick()
            }
        };
        if !self.real[c].barrier(&self.mems[c]) {
            self.aborted = Some("event barrier watchdog expired".into());
            rep.inconclusive("event barrier watchdog expired");
            return stats;
        }
        if !self.static_mode {
            self.real[c].hot_reload();
        }
        let t1 = crate::mem::tick();
        let log = self.mems[c].take_log();
        // --- model side
        let ndeps: Vec<Dep> = notified
            .iter()
            .map(|e| match e {
                OwnedDirEntry::File(i, x) => Dep::File(i.to_string(), x.to_string()),
                OwnedDirEntry::Directory(i) => Dep::Dir(i.to_string()),
            })
            .collect();
        let old_graph = self.model.caches[c].graph.clone();
        self.model.read_trace.clear();
        self.model.trace_on = true;
        let res = self.model.pass_deps(c, &ndeps);
        self.model.trace_on = false;
        let model_reads: BTreeSet<(String, String, bool)> = self
            .model
            .read_trace
            .drain(..)
            .filter(|r| r.0 == c)
            .map(|r| (r.1, r.2, r.3))
            .collect();
        self.passes += 1;
        stats.affected = res.order.len();
        stats.reloaded = res.reloaded.len();
        stats.failed = res.failed.len();
        stats.order_sensitive = res.order_sensitive.len();
        if res.order.len() >= 2 {
            self.passes_multi += 1;
        }

        // --- observe the real cache and synchronise the model with it.
        // The statement is local: "the cached value equals what loading it
        // afresh from the current source and the *current cache* would give".
        // So every affected asset is judged against a fresh evaluation in a
        // model whose cached values are the ones really observed.
        let keys: Vec<Key> = self.model.caches[c].entries.keys().cloned().collect();
        let mut observed: BTreeMap<Key, crate::scen::HandleObs> = BTreeMap::new();
        for key in &keys {
            match self.real[c].get_cached(Fe::Direct, key.0, &key.1) {
                Outcome::Ok(Some(o)) => {
                    observed.insert(key.clone(), o);
                }
                other => {
                    if res.created.contains(key) {
                        // Whether a reload caches a further asset as a side effect
                        // depends on the order of independent reloads: follow the
                        // real cache.
                        self.model.caches[c].entries.remove(key);
                        self.model.caches[c].graph.remove(key);
                        rep.count("side_effect_entries_absent", 1);
                    } else {
                        if j.values || j.results || j.precision {
                            self.bad(rep, j, "entry-missing-after-pass", json!({"key": format!("{} {:?}", key.0.tag(), key.1), "got": format!("{other:?}"),
                                "note": "an entry that was cached before the pass is gone"}));
                        }
                        self.aborted = Some("diverged".into());
                    }
                }
            }
        }
        let model_values_before_sync: BTreeMap<Key, V> = self.model.caches[c]
            .entries
            .iter()
            .map(|(k, e)| (k.clone(), e.value.clone()))
            .collect();
        for (k, o) in &observed {
            if let Some(e) = self.model.caches[c].entries.get_mut(k) {
                e.value = o.v.clone();
            }
        }
        // fresh evaluation of every affected / created asset against the synced model
        let mut fresh: BTreeMap<Key, (Option<V>, BTreeSet<Dep>)> = BTreeMap::new();
        for k in res.order.iter().chain(res.created.iter()) {
            if !observed.contains_key(k) {
                continue;
            }
            let (r, deps) = self.model.fresh(c, k.0, &k.1);
            fresh.insert(k.clone(), (r.ok(), deps));
        }
        // dependency sets are re-learned at every successful reload
        for (k, (v, deps)) in &fresh {
            if v.is_some() {
                self.model.caches[c].graph.insert(k.clone(), deps.clone());
            }
        }

        // --- which stale values can be explained by the known order defect:
        // after the pass the asset (transitively) depends on an asset refreshed
        // in this pass on which it did not depend before, so the order computed
        // from the old graph could not take it into account
        let new_graph = &self.model.caches[c].graph;
        let in_a: BTreeSet<&Key> = res.order.iter().collect();
        fn reach(g: &BTreeMap<Key, BTreeSet<Dep>>, k: &Key) -> BTreeSet<Key> {
            let mut out = BTreeSet::new();
            let mut work = vec![k.clone()];
            while let Some(x) = work.pop() {
                if let Some(ds) = g.get(&x) {
                    for d in ds {
                        if let Dep::Asset(t, i) = d {
                            let dk = (*t, i.clone());
                            if out.insert(dk.clone()) {
                                work.push(dk);
                            }
                        }
                    }
                }
            }
            out
        }
        let mut rewired: BTreeSet<Key> = BTreeSet::new();
        for k in &res.order {
            let old = reach(&old_graph, k);
            let new = reach(new_graph, k);
            if new.iter().any(|y| y != k && in_a.contains(y) && !old.contains(y)) {
                rewired.insert(k.clone());
            }
        }
        let order_fragile = !res.order_sensitive.is_empty() || !rewired.is_empty() || !res.created.is_empty();

        // --- judge every cached asset of this cache
        let mut moved_real: BTreeSet<Key> = BTreeSet::new();
        // (key, handle's id, id handed out by the long-lived watcher, answer and id of a watcher created now)
        let mut watcher_extra: Vec<(Key, u64, u64, bool, u64)> = vec![];
        for (key, obs) in &observed {
            let me = self.model.caches[c].entries[key].clone();
            let in_order = res.order.contains(key);
            let created = res.created.contains(key);
            let tr = self.tracked.get_mut(&(c, key.clone()));
            let (delta, watcher_said, global_said, prev_value, prev_token, prev_ref) = match tr {
                Some(t) => {
                    let d = obs.rid as i64 - t.last_rid as i64;
                    t.last_rid = obs.rid;
                    // the id a watcher hands out is the handle's current one, asked or not
                    let watcher_id = rid_num(t.watcher.last_reload_id());
                    let w = t.watcher.reloaded();
                    // a watcher created now has seen everything that happened so far
                    // SAFETY: see `track`
                    let mut late = unsafe { &*t.h }.reload_watcher();
                    let late_said = late.reloaded();
                    let late_id = rid_num(late.last_reload_id());
                    watcher_extra.push((key.clone(), obs.rid, watcher_id, late_said, late_id));
                    // SAFETY: see `track`
                    let g = unsafe { &*t.h }.reloaded_global();
                    let pv = std::mem::replace(&mut t.value, obs.v.clone());
                    let pt = std::mem::replace(&mut t.token, obs.token);
                    (Some(d), Some(w), Some(g), Some(pv), Some(pt), t.get_ref.clone())
                }
                None => (None, None, None, None, None, None),
            };
            if delta.is_some_and(|d| d != 0) {
                moved_real.insert(key.clone());
            }
            let keydesc = format!("{} {:?}", key.0.tag(), key.1);
            // ---- protected / never-reloadable entries (C10)
            if j.protected && (me.protected || !me.dynamic) && !created {
                let changed = prev_value.as_ref().is_some_and(|p| *p != obs.v)
                    || prev_token.as_ref().is_some_and(|p| *p != obs.token)
                    || delta.is_some_and(|d| d != 0)
                    || model_values_before_sync.get(key) != Some(&obs.v);
                let mut ref_changed = false;
                if let Some((addr, v)) = &prev_ref {
                    match self.real[c].get_ref(key.0, &key.1) {
                        Some(Outcome::Ok((a2, v2))) => ref_changed = a2 != *addr || v2 != *v,
                        _ => ref_changed = true,
                    }
                }
                if changed || ref_changed {
                    self.bad(rep, j, "protected-rewritten", json!({
                        "key": keydesc, "how_created": if me.protected { "get_or_insert" } else { "non-reloadable type or cache" },
                        "value_before": format!("{prev_value:?}"), "value_after": format!("{:?}", obs.v),
                        "reload_id_delta": delta, "get_ref_changed": ref_changed}));
                }
                rep.count("protected_entries_checked", 1);
            }
            // ---- values (C05): affected assets equal a fresh load against the
            // current source and current cache; a failing reload keeps the old value
            if in_order {
                // a reload that failed in the model (undecodable source, injected
                // fault, panicking loader) keeps the previous value
                let want = if self.faults_active {
                    // with injected faults the expectation is the model's own
                    // pass, which was given the same faults
                    res.after_pass[key].clone()
                } else {
                    match fresh.get(key) {
                        Some((Some(v), _)) if !res.failed.contains(key) && !res.panicked.contains(key) => v.clone(),
                        _ => res.before[key].clone(),
                    }
                };
                if obs.v != want {
                    // The real dependency graph may now differ from the model's
                    // (the stale reload recorded other dependencies): later passes
                    // of this history cannot be judged.
                    if self.aborted.is_none() {
                        self.aborted = Some("diverged after a stale reload".into());
                        rep.count("histories_stopped_on_divergence", 1);
                    }
                }
                if j.values && obs.v != want {
                    // explained by the known order defect when the fresh
                    // evaluation uses an asset refreshed / created in this pass that
                    // the old graph did not know about
                    let deps_now = reach(new_graph, key);
                    let old = reach(&old_graph, key);
                    let expl = rewired.contains(key)
                        || deps_now.iter().any(|y| rewired.contains(y))
                        || deps_now.iter().any(|y| (in_a.contains(y) || res.created.contains(y)) && !old.contains(y));
                    let clause = if expl && j.classify_rewire {
                        "stale-after-pass:rewired-to-asset-pending-in-same-batch"
                    } else {
                        "stale-after-pass"
                    };
                    self.bad(rep, j, clause, json!({"key": keydesc, "got": format!("{:?}", obs.v), "fresh_load_would_give": format!("{want:?}"),
                        "value_before_pass": format!("{:?}", res.before.get(key)), "rewired_assets": format!("{rewired:?}")}));
                }
            }
            // ---- precision (C06)
            if j.precision && !created {
                if !in_order {
                    // not affected: must be untouched
                    let changed = prev_value.as_ref().is_some_and(|p| *p != obs.v) || delta.is_some_and(|d| d != 0);
                    if changed {
                        self.bad(rep, j, "unaffected-rewritten", json!({"key": keydesc, "reload_id_delta": delta,
                            "value_before": format!("{prev_value:?}"), "value_after": format!("{:?}", obs.v),
                            "notified": format!("{ndeps:?}")}));
                    }
                } else if let Some(d) = delta {
                    if !(0..=1).contains(&d) {
                        self.bad(rep, j, "rewritten-more-than-once", json!({"key": keydesc, "reload_id_delta": d}));
                    }
                    if !order_fragile {
                        if res.failed.contains(key) && d != 0 {
                            self.bad(rep, j, "id-moved-on-failed-reload", json!({"key": keydesc, "reload_id_delta": d}));
                        }
                    }
                    let value_changed = res.before.get(key) != Some(&obs.v);
                    if value_changed && d == 0 {
                        self.bad(rep, j, "rewrite-not-counted", json!({"key": keydesc}));
                    }
                }
                if let (Some(d), Some(w), Some(g)) = (delta, watcher_said, global_said) {
                    if w != (d > 0) {
                        self.bad(rep, j, "watcher-answer", json!({"key": keydesc, "reload_id_delta": d, "watcher_reloaded": w}));
                    }
                    if g != (d > 0) {
                        self.bad(rep, j, "reloaded-global-answer", json!({"key": keydesc, "reload_id_delta": d, "reloaded_global": g}));
                    }
                    rep.count("watcher_answers_checked", 2);
                }
            }
        }
        if j.precision {
            for (key, rid, watcher_id, late_said, late_id) in &watcher_extra {
                let keydesc = format!("{} {:?}", key.0.tag(), key.1);
                if watcher_id != rid || late_id != rid {
                    self.bad(rep, j, "watcher-last-reload-id", json!({"key": keydesc, "handle_last_reload_id": rid,
                        "watcher_last_reload_id": watcher_id, "new_watcher_last_reload_id": late_id}));
                }
                if *late_said {
                    self.bad(rep, j, "new-watcher-reports-old-reload", json!({"key": keydesc, "handle_last_reload_id": rid}));
                }
                rep.count("watcher_answers_checked", 2);
            }
        }
        // ---- attribution (C14): the set of moved ids is exactly the model's
        if j.attribution && !order_fragile {
            let moved_model: BTreeSet<Key> = res.reloaded.iter().cloned().collect();
            if moved_real != moved_model {
                let extra: Vec<_> = moved_real.difference(&moved_model).map(|k| format!("{} {:?}", k.0.tag(), k.1)).collect();
                let missing: Vec<_> = moved_model.difference(&moved_real).map(|k| format!("{} {:?}", k.0.tag(), k.1)).collect();
                self.bad(rep, j, "reloaded-set", json!({"notified": format!("{ndeps:?}"), "reloaded_but_should_not": extra, "should_reload_but_did_not": missing}));
            }
        }
        // ---- reads on the reloader thread (C06)
        let reloader_reads: Vec<_> = log
            .iter()
            .filter(|e| e.reloader && e.op != MemOp::Exists)
            .collect();
        stats.reader_reads = reloader_reads.len();
        if j.precision {
            for e in &reloader_reads {
                if e.seq < t0 || e.seq > t1 {
                    self.bad(rep, j, "read-outside-pass", json!({"id": e.id, "ext": e.ext, "seq": e.seq, "pass_window": [t0, t1]}));
                }
            }
            if res.order.is_empty() && !reloader_reads.is_empty() {
                let e = reloader_reads[0];
                self.bad(rep, j, "read-with-nothing-affected", json!({"id": e.id, "ext": e.ext, "notified": format!("{ndeps:?}")}));
            } else if !order_fragile && res.failed.is_empty() && res.panicked.is_empty() {
                for e in &reloader_reads {
                    let k = (e.id.clone(), e.ext.clone(), e.op == MemOp::ReadDir);
                    if !model_reads.contains(&k) {
                        self.bad(rep, j, "unexplained-read", json!({"id": e.id, "ext": e.ext, "dir": k.2, "notified": format!("{ndeps:?}")}));
                        break;
                    }
                }
            }
        }
        // A reloaded asset gained a dependency on an asset that was reloaded in the same pass
        // (or the model itself found the pass order-sensitive): which of the two ran first is not
        // specified, so the *real* dependency graph may now differ from the model's without any
        // value showing it. Precision and attribution cannot be judged on top of that: the
        // history ends here (what was observed so far has been judged).
        if (j.precision || j.attribution) && (!rewired.is_empty() || !res.order_sensitive.is_empty()) && self.aborted.is_none() {
            self.aborted = Some("dependency graph depends on the reload order of the last pass".into());
            rep.count("histories_stopped_after_an_order_sensitive_pass", 1);
        }
        // entries the pass created as a side effect
        self.track_all();
        self.fresh_entries.clear();
        self.last_pass = Some(res);
        stats
    }

    /// Presence and value of every key of `universe` (plus every key the
    /// model holds) are the same in the real caches and in the model.
    pub fn full_compare(&mut self, rep: &mut Report, j: &Judge, universe: &[(usize, Key)]) {
        if self.aborted.is_some() {
            return;
        }
        let mut keys: BTreeSet<(usize, Key)> = universe.iter().cloned().collect();
        for c in 0..self.real.len() {
            for k in self.model.caches[c].entries.keys() {
                keys.insert((c, k.clone()));
            }
        }
        for (c, k) in keys {
            let m = self.model.caches[c].entries.get(&k).map(|e| e.value.clone());
            let r = match self.real[c].get_cached(Fe::Direct, k.0, &k.1) {
                Outcome::Ok(o) => o.map(|o| o.v),
                other => {
                    self.bad(rep, j, "get-cached-failed", json!({"cache": c, "key": format!("{} {:?}", k.0.tag(), k.1), "got": format!("{other:?}")}));
                    continue;
                }
            };
            if m != r {
                let clause = match (&m, &r) {
                    (None, Some(_)) => "unexpected-entry-visible",
                    (Some(_), None) => "entry-missing",
                    _ => "entry-value-differs",
                };
                self.bad(rep, j, clause, json!({"cache": c, "key": format!("{} {:?}", k.0.tag(), k.1),
                    "real": format!("{r:?}"), "model": format!("{m:?}")}));
            }
            rep.count("full_compare_keys", 1);
        }
    }

    /// C13: exactly the tokens owned by currently cached entries are alive, and
    /// nothing was dropped twice since the world was created.
    pub fn ledger_check(&mut self, rep: &mut Report, j: &Judge) {
        if !j.ledger || self.aborted.is_some() {
            return;
        }
        let mut expected: BTreeSet<usize> = BTreeSet::new();
        for c in 0..self.real.len() {
            let keys: Vec<Key> = self.model.caches[c].entries.keys().cloned().collect();
            for k in keys {
                if let Outcome::Ok(Some(o)) = self.real[c].get_cached(Fe::Direct, k.0, &k.1) {
                    if let Some(t) = o.token {
                        if !expected.insert(t) {
                            self.bad(rep, j, "token-shared-by-two-entries", json!({"token": t}));
                        }
                    }
                }
            }
        }
        let live: BTreeSet<usize> = ledger::live_since(self.mark).into_iter().collect();
        if live != expected {
            let leaked: Vec<_> = live.difference(&expected).take(5).collect();
            let dead: Vec<_> = expected.difference(&live).take(5).collect();
            self.bad(rep, j, "ledger-imbalance", json!({"alive_but_not_in_cache": leaked, "in_cache_but_dropped": dead}));
        }
        let dd = ledger::double_drops();
        if dd != self.double_drops_at_start {
            self.bad(rep, j, "double-drop", json!({"double_drops": dd - self.double_drops_at_start}));
            self.double_drops_at_start = dd;
        }
        rep.count("ledger_checks", 1);
    }

    /// Reads that happened on the reloader thread while no pass was running
    /// (to be called at the end of a scenario, after a final barrier).
    pub fn stray_reloader_reads(&self, c: usize) -> usize {
        self.mems[c]
            .take_log()
            .iter()
            .filter(|e| e.reloader && e.op != MemOp::Exists)
            .count()
    }
}

impl Drop for World {
    fn drop(&mut self) {
        // handles must not outlive the caches
        self.tracked.clear();
        for i in 0..self.real.len() {
            CTX.unregister_cache(i);
        }
    }
}
